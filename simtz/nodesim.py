"""SimNode — a small executable model of a Tezos node, as far as the claimed properties
look at it.  Lives behind the transport seam; shares no code with pytezos.

State: chain (blocks with per-level context snapshots), mempool (validated operations),
accounts (counter, balance, public key), a baker timer on the virtual clock, optional
"tracked values" for the chain-history search (C29) and a big_map store (C15).
"""
import json
import re

from simtz import core
from simtz import opcodec as oc

PROTO = 'PtTALLiNtPec7mE7yY4m3k26J8Qukef3E3ehzhfXgFZKGtDdAXu'
CONSTANTS = {
    'hard_gas_limit_per_operation': '1040000',
    'hard_gas_limit_per_block': '1386666',
    'hard_storage_limit_per_operation': '60000',
    'cost_per_byte': '250',
    'origination_size': 257,
    'max_operations_time_to_live': 450,
}

_BLOCK_RE = re.compile(r'^/chains/main/blocks/([^/]+)(/.*)?$')


def rpc_error(status, eid, kind='permanent', **extra):
    e = {'kind': kind, 'id': eid}
    e.update(extra)
    return core.Reply.js([e], status=status)


class SimNode:
    def __init__(self, sim, cfg=None):
        cfg = cfg or {}
        self.sim = sim
        self.cfg = cfg
        self.dialect_key = cfg.get('pending_key', 'validated')  # 'validated' (current Octez) | 'applied' (legacy)
        self.dialect_pairs = cfg.get('pending_pairs', False)  # entries as [hash, op] pairs (very old nodes)
        self.block_delay_s = int(cfg.get('block_delay_s', 8))
        self.chain_name = cfg.get('chain_name', 'TEZOS_MAINNET')
        self.chain_id = oc.b58enc('Net', bytes([0x7A, 0x06, 0xA7, 0x70]))
        self.accounts = {}  # pkh -> {'counter','balance','key'}
        self.blocks = []
        self.by_hash = {}
        self.mempool = []  # validated: {'hash','branch','contents','raw','signature_b58'}
        self.other_classes = {'refused': [], 'outdated': [], 'branch_refused': [], 'branch_delayed': [], 'unprocessed': []}
        self.known_ops = {}  # op hash -> 'mempool' | level
        self.sim_plan = None  # list of per-content simulation outcomes for run_operation
        self.unmodelled = {}
        self.tracked = {}  # name -> current value (C29); snapshotted into every block
        self.vote_ops_next = []  # validation pass 1 operations to include in the next block
        self.manager_ops_next = []  # extra pass-3 operations (origination records etc.) for the next block
        self.big_maps = {}  # id -> {key_hash: micheline}
        self.contracts = {}  # KT1 -> {'code': micheline, 'storage': micheline} (originated contracts with a script)
        self.on_inject = None  # callback(node, info) -> optional Reply (oracles live in the property modules)
        self.baker_on = False
        self.bake_jitter = cfg.get('bake_jitter_ms', [])  # per-bake extra delay (scenario-decided), cycled
        self._bakes = 0
        self.acct_epoch = {}  # pkh -> number of blocks that included operations of pkh
        self.counter_read_epoch = {}  # pkh -> acct_epoch at the last counter read
        self.race_tainted = {}  # pkh -> True if a block with own ops landed between counter read and mempool read
        self.last_counter_served = {}  # pkh -> (counter served at head, contents pending at that moment)
        self.stats = sim.stats
        self._genesis()

    # ------------------------------------------------------------------ chain
    def _genesis(self):
        blk = {
            'level': 0,
            'hash': oc.block_hash(b'genesis'),
            'predecessor': oc.block_hash(b'genesis'),
            'timestamp': self.sim.unix(),
            'ops': [[], [], [], []],
            'ctx': {'counters': {}, 'tracked': {}},
        }
        self.blocks.append(blk)
        self.by_hash[blk['hash']] = blk

    @property
    def head(self):
        return self.blocks[-1]

    def add_account(self, pkh, counter=0, balance=10**12, key=None):
        self.accounts[pkh] = {'counter': counter, 'balance': balance, 'key': key}
        self.acct_epoch.setdefault(pkh, 0)
        if len(self.blocks) == 1:
            self.blocks[0]['ctx']['counters'][pkh] = counter

    def start_baker(self):
        self.baker_on = True
        self._schedule_bake()

    def _schedule_bake(self):
        extra = 0
        if self.bake_jitter:
            extra = self.bake_jitter[self._bakes % len(self.bake_jitter)]
        self.sim.after(self.block_delay_s * 1000 + extra, self._bake_tick, 'bake')

    def _bake_tick(self):
        if not self.baker_on:
            return
        self.bake()
        self._schedule_bake()

    def bake(self, n=1):
        for _ in range(n):
            self._bake_one()

    def _bake_one(self):
        self.classify_unprocessed()
        prev = self.head
        level = prev['level'] + 1
        self._bakes += 1
        ops = [[], list(self.vote_ops_next), [], []]
        self.vote_ops_next = []
        included_sources = set()
        for op in self.mempool:
            contents = []
            for c in op['contents']:
                acct = self.accounts.get(c['source'])
                if acct is not None:
                    acct['counter'] += 1
                included_sources.add(c['source'])
                cc = dict(c['json'])
                cc['metadata'] = {'balance_updates': [], 'operation_result': {'status': 'applied', 'consumed_milligas': '100000'}}
                contents.append(cc)
            ops[3].append(
                {'protocol': PROTO, 'chain_id': self.chain_id, 'hash': op['hash'], 'branch': op['branch'], 'contents': contents, 'signature': op['signature_b58']}
            )
            self.known_ops[op['hash']] = level
        ops[3].extend(self.manager_ops_next)
        self.manager_ops_next = []
        self.mempool = []
        for src in included_sources:
            self.acct_epoch[src] = self.acct_epoch.get(src, 0) + 1
        if self.cfg.get('logical_timestamps'):
            # the chain keeps its own time: block timestamps do not depend on how much (virtual) time the client under test has spent
            ts = prev['timestamp'] + max(1, int(self.block_delay_s))
        else:
            ts = max(self.sim.unix(), prev['timestamp'] + 1)
        blk = {
            'level': level,
            'hash': oc.block_hash(b'blk%d/%d' % (level, self.cfg.get('fork', 0))),
            'predecessor': prev['hash'],
            'timestamp': ts,
            'ops': ops,
            'ctx': {'counters': {p: a['counter'] for p, a in self.accounts.items()}, 'tracked': dict(self.tracked)},
        }
        if self.cfg.get('big_map_snapshots'):
            blk['ctx']['big_maps'] = json.loads(json.dumps(self.big_maps))  # what this block's context holds
        self.blocks.append(blk)
        self.by_hash[blk['hash']] = blk
        self.stats['blocks_baked'] += 1
        self.sim.ev('bake', level=level, included=len(ops[3]), votes=len(ops[1]))

    def resolve(self, bid):
        """block id -> block or None"""
        off = 0
        if '~' in bid:
            bid, _, o = bid.partition('~')
            off = int(o)
        if bid == 'head':
            idx = len(self.blocks) - 1
        elif bid == 'genesis':
            idx = 0
        elif bid.isdigit():
            idx = int(bid)
        elif bid in self.by_hash:
            idx = self.by_hash[bid]['level']
        else:
            return None
        idx -= off
        if idx < 0:
            idx = 0 if off else idx
        if 0 <= idx < len(self.blocks):
            return self.blocks[idx]
        return None

    # ------------------------------------------------------------------ mempool
    def pending_of(self, pkh):
        """Contents of `pkh` pending in the mempool: validated ones plus those injected asynchronously and not yet classified."""
        return sum(1 for op in self.mempool + self.other_classes['unprocessed'] for c in op['contents'] if c['source'] == pkh and op.get('own', True))

    def classify_unprocessed(self):
        """The prevalidator gets to the asynchronously injected operations: they become `validated`."""
        moved = [op for op in self.other_classes['unprocessed'] if op.get('own')]
        if moved:
            self.other_classes['unprocessed'] = [op for op in self.other_classes['unprocessed'] if not op.get('own')]
            self.mempool.extend(moved)
            self.sim.ev('classified', n=len(moved))

    def add_noise_op(self, source, n=1, where='validated'):
        """An operation of another account, in the validated class or in one of the others."""
        acct = self.accounts.setdefault(source, {'counter': 0, 'balance': 10**9, 'key': None})
        base = acct['counter'] + self.pending_of(source)
        contents = []
        for i in range(n):
            j = {
                'kind': 'transaction', 'source': source, 'fee': '500', 'counter': str(base + 1 + i), 'gas_limit': '2000', 'storage_limit': '0',
                'amount': '1', 'destination': source,
            }
            contents.append({'kind': 'transaction', 'source': source, 'counter': base + 1 + i, 'fee': 500, 'gas_limit': 2000, 'json': j})
        h = oc.op_hash(b'noise%d/%s/%d' % (self.sim.seq, source.encode(), len(self.known_ops)))
        op = {'hash': h, 'branch': self.head['hash'], 'contents': contents, 'raw': b'', 'signature_b58': 'sigNoise', 'own': False}
        if where == 'validated':
            self.mempool.append(op)
            self.known_ops[h] = 'mempool'
        else:
            self.other_classes[where].append(op)
        return h

    def add_foreign_kind_pending(self, pkh, kind='increase_paid_storage', n=1):
        """A pending (validated) manager operation of `pkh` made by another wallet, of a kind pytezos itself cannot build.
        It takes counters like any other manager operation."""
        acct = self.accounts[pkh]
        base = acct['counter'] + self.pending_of(pkh)
        contents = []
        for i in range(n):
            j = {'kind': kind, 'source': pkh, 'fee': '600', 'counter': str(base + 1 + i), 'gas_limit': '1500', 'storage_limit': '0'}
            if kind == 'increase_paid_storage':
                j.update(amount='10', destination='KT1BEqzn5Wx8uJrZNvuS9DVHmLvG9td3fDLi')
            elif kind == 'update_consensus_key':
                j.update(pk='edpkuKfUhDJe7r9drgmtSayjTSWibCFfSDmgV8H7HgMNqwKiw5Y3bA')
            elif kind == 'set_deposits_limit':
                j.update(limit='1000')
            contents.append({'kind': kind, 'source': pkh, 'counter': base + 1 + i, 'fee': 600, 'gas_limit': 1500, 'json': j})
        h = oc.op_hash(b'foreign%d/%s/%d' % (self.sim.seq, pkh.encode(), len(self.known_ops)))
        self.mempool.append({'hash': h, 'branch': self.head['hash'], 'contents': contents, 'raw': b'', 'signature_b58': 'sigForeign', 'own': True})
        self.known_ops[h] = 'mempool'
        # for the account this is an accepted injection like any other (made through another wallet): a group of the account that was
        # filled before it and is injected after it is an interleaved history
        self.stats['injections_accepted'] += 1
        return h

    def add_stale_own_op(self, pkh, where='outdated', n=1):
        """An operation of `pkh` that will never take a counter: already superseded (`outdated`), refused or delayed.  It is
        listed by pending_operations under that class but is not pending."""
        acct = self.accounts[pkh]
        contents = []
        for i in range(n):
            ctr = max(1, acct['counter'] - i)
            j = {'kind': 'transaction', 'source': pkh, 'fee': '400', 'counter': str(ctr), 'gas_limit': '1500', 'storage_limit': '0', 'amount': '1', 'destination': pkh}
            contents.append({'kind': 'transaction', 'source': pkh, 'counter': ctr, 'fee': 400, 'gas_limit': 1500, 'json': j})
        h = oc.op_hash(b'stale%d/%s/%d' % (self.sim.seq, pkh.encode(), len(self.known_ops)))
        self.other_classes[where].append({'hash': h, 'branch': self.head['hash'], 'contents': contents, 'raw': b'', 'signature_b58': 'sigStale', 'own': False})
        return h

    def _pending_json(self):
        def entry(op, with_error=False):
            o = {'hash': op['hash'], 'branch': op['branch'], 'contents': [c['json'] for c in op['contents']], 'signature': op['signature_b58']}
            if with_error:
                o['error'] = [{'kind': 'temporary', 'id': 'node.mempool.delayed'}]
            if self.dialect_pairs:
                h = o.pop('hash')
                return [h, o]
            return o

        out = {self.dialect_key: [entry(op) for op in self.mempool]}
        for cls, ops in self.other_classes.items():
            out[cls] = [entry(op, with_error=(cls != 'unprocessed')) for op in ops]
        return out

    # ------------------------------------------------------------------ HTTP
    def handle(self, req):
        path = req['path']
        method = req['method']
        if path == '/version':
            return core.Reply.js({'version': {'major': 22, 'minor': 0}, 'network_version': {'chain_name': self.chain_name, 'distributed_db_version': 2, 'p2p_version': 1}})
        if path == '/chains/main/chain_id':
            return core.Reply.js(self.chain_id)
        if path == '/chains/main/mempool/pending_operations':
            for pkh in self.accounts:
                if self.counter_read_epoch.get(pkh) is not None and self.counter_read_epoch[pkh] != self.acct_epoch.get(pkh, 0):
                    self.race_tainted[pkh] = True
            if getattr(self, 'on_pending_read', None):
                self.on_pending_read()
            return core.Reply.js(self._pending_json())
        if path == '/chains/main/mempool/filter' and method == 'GET':
            mode = self.cfg.get('filter_rpc', 'default')
            if mode == 'absent':
                return core.Reply.text('not found', 404)
            if mode == 'lowered':
                # an operator relaxed this node's own filter; the rest of the network still applies the default
                return core.Reply.js({'minimal_fees': '0', 'minimal_nanotez_per_gas_unit': ['50', '1'], 'minimal_nanotez_per_byte': ['500', '1']})
            if mode == 'raised':
                return core.Reply.js({'minimal_fees': '250', 'minimal_nanotez_per_gas_unit': ['150', '1'], 'minimal_nanotez_per_byte': ['1200', '1']})
            return core.Reply.js({})
        if path == '/injection/operation' and method == 'POST':
            return self._inject(req)
        m = _BLOCK_RE.match(path)
        if m:
            blk = self.resolve(m.group(1))
            if blk is None:
                return core.Reply.text('block not found', 404)
            return self._block_rpc(blk, m.group(1), m.group(2) or '', req)
        self.unmodelled[path] = self.unmodelled.get(path, 0) + 1
        return core.Reply.text('unmodelled endpoint', 404, note='unmodelled')

    def _header(self, blk):
        return {
            'protocol': PROTO,
            'chain_id': self.chain_id,
            'hash': blk['hash'],
            'level': blk['level'],
            'proto': 1,
            'predecessor': blk['predecessor'],
            'timestamp': self.sim.iso(blk['timestamp']),
            'validation_pass': 4,
            'fitness': ['02', '%08x' % blk['level']],
            'context': 'CoV8SQumiVU9saiu3FVNeDNewJaJH8yWdsGF3WLdsRr2P9S7MzCj',
        }

    def _block_rpc(self, blk, bid, rest, req):
        if rest in ('', '/'):
            return core.Reply.js({'protocol': PROTO, 'chain_id': self.chain_id, 'hash': blk['hash'], 'header': self._header(blk), 'operations': blk['ops']})
        if rest == '/hash':
            return core.Reply.js(blk['hash'])
        if rest == '/header':
            return core.Reply.js(self._header(blk))
        if rest == '/metadata':
            lvl = blk['level']
            per = self.cfg.get('blocks_per_period', 64)
            return core.Reply.js(
                {'protocol': PROTO, 'next_protocol': PROTO, 'baker': 'tz1Ke2h7sDdakHJQh8WX4Z372du1KChsksyU',
                 'level_info': {'level': lvl, 'level_position': max(lvl - 1, 0), 'cycle': max(lvl - 1, 0) // per, 'cycle_position': max(lvl - 1, 0) % per,
                                'expected_commitment': False},
                 'voting_period_info': {'voting_period': {'index': max(lvl - 1, 0) // per, 'kind': 'proposal', 'start_position': (max(lvl - 1, 0) // per) * per},
                                        'position': max(lvl - 1, 0) % per, 'remaining': per - 1 - max(lvl - 1, 0) % per}}
            )
        if rest == '/context/constants':
            c = dict(CONSTANTS)
            c['minimal_block_delay'] = str(self.block_delay_s)
            c.update(self.cfg.get('constants') or {})  # e.g. a sandbox started with its own protocol parameters
            return core.Reply.js(c)
        if rest == '/operation_hashes':
            return core.Reply.js([[op['hash'] for op in vp] for vp in blk['ops']])
        m = re.match(r'^/operation_hashes/(\d)$', rest)
        if m:
            return core.Reply.js([op['hash'] for op in blk['ops'][int(m.group(1))]])
        if rest == '/operations':
            return core.Reply.js(blk['ops'])
        m = re.match(r'^/operations/(\d+)$', rest)
        if m:
            i = int(m.group(1))
            if i >= 4:
                return core.Reply.text('no such pass', 404)
            return core.Reply.js(blk['ops'][i])
        m = re.match(r'^/operations/(\d+)/(\d+)$', rest)
        if m:
            i, j = int(m.group(1)), int(m.group(2))
            if i >= 4 or j >= len(blk['ops'][i]):
                return core.Reply.text('no such operation', 404)
            return core.Reply.js(blk['ops'][i][j])
        m = re.match(r'^/context/contracts/([^/]+)(/counter|/manager_key|/balance|/script|/storage)?$', rest)
        if m:
            return self._contract_rpc(blk, bid, m.group(1), m.group(2) or '')
        if rest == '/votes/ballots':
            v = blk['ctx']['tracked'].get('ballots', {'yay': 0, 'nay': 0, 'pass': 0})
            return core.Reply.js(v)
        if rest == '/votes/proposals':
            return core.Reply.js(blk['ctx']['tracked'].get('proposals', []))
        if rest == '/helpers/scripts/run_operation' and req['method'] == 'POST':
            return self._run_operation(blk, req)
        m = re.match(r'^/context/big_maps/(-?\d+)/([^/]+)$', rest)
        if m:
            store = self.big_maps
            if blk is not self.head and blk['ctx'].get('big_maps') is not None:
                store = {int(k): v for k, v in blk['ctx']['big_maps'].items()}  # a read addressed to an older block sees that block's context
                self.stats['big_map_read_at_old_block'] += 1
            bm = store.get(int(m.group(1)))
            if bm is None or m.group(2) not in bm:
                return core.Reply.text('', 404)
            return core.Reply.js(bm[m.group(2)])
        self.unmodelled['blocks/*' + rest] = self.unmodelled.get('blocks/*' + rest, 0) + 1
        return core.Reply.text('unmodelled endpoint', 404, note='unmodelled')

    def _contract_rpc(self, blk, bid, addr, sub):
        is_head = blk is self.head
        if addr in self.contracts:
            c = self.contracts[addr]
            if sub == '/script':
                return core.Reply.js({'code': c['code'], 'storage': c['storage']})
            if sub == '/storage':
                return core.Reply.js(c['storage'])
            if sub == '/counter':
                return core.Reply.text('no counter for originated contracts', 404)
            return core.Reply.js({'balance': '0', 'script': {'code': c['code'], 'storage': c['storage']}})
        if addr.startswith('KT1'):
            # originated contracts tracked for C29: {'kt:<addr>': counter-or-None}
            v = blk['ctx']['tracked'].get('kt:' + addr)
            if v is None:
                return core.Reply.text('contract not found', 404)
            if sub == '/counter':
                return core.Reply.js(str(v))
            return core.Reply.js({'balance': '0', 'counter': str(v)})
        if is_head:
            acct = self.accounts.get(addr)
            counter = acct['counter'] if acct else None
        else:
            counter = blk['ctx']['counters'].get(addr)
            acct = self.accounts.get(addr)
        tv = blk['ctx']['tracked'].get('ctr:' + addr)
        if tv is not None:
            counter = tv
        if counter is None:
            if sub:
                return core.Reply.text('no such contract', 404)
            return core.Reply.js({'balance': '0', 'counter': '0'})
        if is_head and addr in self.accounts:
            self.counter_read_epoch[addr] = self.acct_epoch.get(addr, 0)
            self.race_tainted[addr] = False
            self.last_counter_served[addr] = (counter, self.pending_of(addr))  # what the client was told, and what was pending then
        bal = blk['ctx']['tracked'].get('bal:' + addr)
        if bal is not None:
            return core.Reply.js({'balance': str(bal), 'counter': str(counter)}) if not sub else core.Reply.js(str(counter if sub == '/counter' else bal))
        if sub == '/counter':
            return core.Reply.js(str(counter))
        if sub == '/balance':
            return core.Reply.js(str(acct['balance'] if acct else 0))
        if sub == '/manager_key':
            return core.Reply.js(acct['key'] if acct else None)
        return core.Reply.js({'balance': str(acct['balance'] if acct else 0), 'counter': str(counter)})

    # ------------------------------------------------------------------ simulation RPC
    def _run_operation(self, blk, req):
        try:
            body = json.loads(req['body'])
            op = body['operation']
            contents = op['contents']
        except (ValueError, KeyError, TypeError):
            return rpc_error(400, 'rpc.bad_request')
        # a real node validates counters against the *head* context (pending operations are not applied)
        for c0 in contents:
            src0 = c0.get('source')
            if src0 in self.accounts:
                # the simulation observes the head counter too: it counts as a counter read for the race bookkeeping
                self.counter_read_epoch[src0] = self.acct_epoch.get(src0, 0)
        expect = {}
        results = []
        plan = self.sim_plan or [{}]
        for i, c in enumerate(contents):
            c = dict(c)
            src = c.get('source')
            failed = None
            if src in self.accounts and 'counter' in c:
                nxt = expect.get(src, self.accounts[src]['counter'] + 1)
                got = int(c['counter'])
                if got != nxt:
                    eid = 'contract.counter_in_the_past' if got < nxt else 'contract.counter_in_the_future'
                    failed = [{'kind': 'branch' if got < nxt else 'temporary', 'id': f'proto.024-PtTALLiN.{eid}', 'contract': src, 'expected': str(nxt), 'found': str(got)}]
                expect[src] = nxt + 1
            p = plan[i % len(plan)]
            if failed is None and c.get('kind') == 'reveal' and self.accounts.get(src, {}).get('revealed'):
                failed = [{'kind': 'branch', 'id': 'proto.024-PtTALLiN.contract.previously_revealed_key', 'contract': src}]
                self.stats['run_operation_redundant_reveal'] += 1
            if failed:
                res = {'status': 'failed', 'errors': failed}
                self.stats['run_operation_counter_failed'] += 1
            else:
                mg = p.get('milligas', 100000)
                drift = int(self.cfg.get('gas_drift_milligas_per_block', 0) or 0)
                if drift:
                    # the contract's state grows with the chain: the same call costs a little more at every new head
                    hard_mg = int((self.cfg.get('constants') or {}).get('hard_gas_limit_per_operation', CONSTANTS['hard_gas_limit_per_operation'])) * 1000 // max(1, len(contents))
                    mg = min(hard_mg, mg + drift * self.head['level'])
                res = {'status': 'applied', 'consumed_milligas': str(mg)}
                if p.get('paid'):
                    res['paid_storage_size_diff'] = str(p['paid'])
                if p.get('alloc'):
                    res['allocated_destination_contract'] = True
                if c.get('kind') == 'origination':
                    res['originated_contracts'] = [oc.b58enc('KT1', oc.blake2b(b'orig%d' % i, 20))]
                if p.get('storage_size'):
                    res['storage_size'] = str(p['storage_size'])
            md = {'balance_updates': [], 'operation_result': res}
            if p.get('internal') and not failed:
                md['internal_operation_results'] = [
                    {'kind': 'transaction', 'source': 'KT1BEqzn5Wx8uJrZNvuS9DVHmLvG9td3fDLi', 'nonce': k, 'amount': '0', 'destination': src or 'tz1burn',
                     'result': {'status': 'applied', 'consumed_milligas': str(ip.get('milligas', 0)),
                                **({'paid_storage_size_diff': str(ip['paid'])} if ip.get('paid') else {}),
                                **({'allocated_destination_contract': True} if ip.get('alloc') else {})}}
                    for k, ip in enumerate(p['internal'])
                ]
            c['metadata'] = md
            results.append(c)
        self.stats['run_operation'] += 1
        return core.Reply.js({'contents': results, 'signature': op.get('signature')})

    # ------------------------------------------------------------------ injection
    def _inject(self, req):
        try:
            hexstr = json.loads(req['body'])
            raw = bytes.fromhex(hexstr)
        except (ValueError, TypeError):
            return rpc_error(400, 'rpc.bad_request')
        self.stats['injections_received'] += 1
        h = oc.op_hash(raw)
        if h in self.known_ops:
            # re-delivery of bytes the node already has (automatic POST retry after a lost answer, manual re-inject)
            self.stats['injection_duplicate'] += 1
            self.sim.ev('inject_dup', hash=h)
            return core.Reply.js(h, note='duplicate')
        try:
            branch, contents, sig = oc.split_signed(raw)
        except oc.DecodeError as e:
            self.stats['injection_undecodable'] += 1
            self.sim.ev('inject_undecodable', err=str(e))
            return rpc_error(500, 'node.injection.undecodable', msg=str(e))
        if branch not in self.by_hash:
            self.stats['injection_unknown_branch'] += 1
            return rpc_error(500, 'node.prevalidation.unknown_branch', kind='branch')
        src = contents[0]['source']
        acct = self.accounts.get(src)
        sig_ok = None
        if acct and acct.get('key'):
            sig_ok = oc.verify_signature(acct['key'], b'\x03' + raw[: len(raw) - len(sig)], sig)
            self.stats['sig_checked'] += 1
            if not sig_ok:
                self.stats['sig_invalid'] += 1
        n_head = acct['counter'] if acct else 0
        pending = self.pending_of(src)
        info = {
            'hash': h, 'raw_len': len(raw), 'branch': branch, 'contents': contents, 'source': src, 'sig_ok': sig_ok, 'siglen': len(sig),
            'node_counter': n_head, 'pending': pending, 'race_tainted': bool(self.race_tainted.get(src)),
            'counters': [c['counter'] for c in contents if c['source'] == src],
            'total_fee': sum(c['fee'] for c in contents), 'total_gas': sum(c['gas_limit'] for c in contents),
        }
        self.sim.ev('inject', hash=h, src=src, counters=info['counters'], node_counter=n_head, pending=pending, fee=info['total_fee'],
                    gas=info['total_gas'], size=len(raw), sig_ok=sig_ok)
        verdict = self.on_inject(self, info) if self.on_inject else None
        if sig_ok is False:
            return rpc_error(500, 'node.prevalidation.invalid_signature')
        want = list(range(n_head + pending + 1, n_head + pending + 1 + len(info['counters'])))
        if info['counters'] != want:
            self.stats['injection_bad_counter'] += 1
            past = info['counters'][0] <= n_head + pending
            return rpc_error(500, 'proto.024-PtTALLiN.contract.' + ('counter_in_the_past' if past else 'counter_in_the_future'),
                             kind='branch' if past else 'temporary', expected=str(want[0]), found=str(info['counters'][0]))
        if any(c['kind'] == 'reveal' for c in contents) and (acct or {}).get('revealed'):
            self.stats['injection_redundant_reveal'] += 1
            return rpc_error(500, 'proto.024-PtTALLiN.contract.previously_revealed_key', kind='branch')
        if verdict == 'fees_too_low':
            self.stats['injection_fees_too_low'] += 1
            return rpc_error(500, 'node.prevalidation.fees_too_low')
        # accept
        jcontents = []
        for c in contents:
            j = {'kind': c['kind'], 'source': c['source'], 'fee': str(c['fee']), 'counter': str(c['counter']), 'gas_limit': str(c['gas_limit']),
                 'storage_limit': str(c['storage_limit'])}
            if 'amount' in c:
                j['amount'] = str(c['amount'])
            if 'destination' in c:
                j['destination'] = c['destination']
            c['json'] = j
            jcontents.append(j)
        entry = {'hash': h, 'branch': branch, 'contents': contents, 'raw': raw, 'signature_b58': oc.b58enc('sig', sig) if len(sig) == 64 else 'BLsig', 'own': True}
        if 'async=True' in (req.get('query') or '') and self.cfg.get('async_unprocessed', True):
            # injected without waiting for prevalidation: listed as `unprocessed` until the prevalidator classifies it
            self.other_classes['unprocessed'].append(entry)
            self.stats['injections_unprocessed'] += 1
            self.sim.after(int(self.cfg.get('classify_after_ms', 1500)), self.classify_unprocessed, 'classify')
        else:
            self.mempool.append(entry)
        self.known_ops[h] = 'mempool'
        self.stats['injections_accepted'] += 1
        return core.Reply.js(h)
