"""C15 — Big map operations and lazy diffs agree with a layered dictionary model.

World `replsim` over SimNode's big_map store (the only durable state).  A run is a sequence
of transactions; each is a REPL session: BEGIN with a storage that is an on-chain big_map id
or a literal, cells GET / MEM / UPDATE / GET_AND_UPDATE / DUP+divergent update over a small
key universe (every written value unique), then NIL operation; PAIR; COMMIT whose lazy diff
the node applies (alloc -> the node assigns a fresh id; update in place).  Faults: sessions
abandoned before COMMIT, failing cells in the middle, transient 5xx bursts below the retry
cap and latency on the big_map read RPC.

Oracle: a layered dictionary (chain contents + per-session overlay), cell by cell and at
every commit; key hashes recomputed with an independent packer.
"""
import hashlib
import json

from simtz import core
from simtz import nodesim
from simtz import opcodec as oc
from simtz import replsim as rs
from simtz.runner import rng_for

ID = 'C15'
QUICK_RUNS = 5000
QUICK_BUDGET_S = 90
CHUNK = 25
CHUNK_TIMEOUT_S = 600
RULE = (
    'seed -> key type (int, string, bytes, pair int string, 4-comb pair int int int string), universe of 1..6 keys, initial on-chain contents of two big_maps (every split of keys between '
    'chain and local updates arises), and 1..5 transactions of up to 12 cells over {GET, MEM, UPDATE Some/None, GET_AND_UPDATE Some/None, DUP+update on '
    'the copy (dropped or kept)} with storage = on-chain id, literal or empty; ends in COMMIT (diff applied to the node) or abandonment; failing cells '
    '(failing tail or injected instruction fault) and transient RPC faults below the retry cap on reads. Non-trivial = at least one observation or '
    'commit was judged against the model; distinct = scenario digest.'
)
STATE_MEASURE = 'per operation: (op, key on chain?, overlay state absent/updated/removed/reinserted, storage source)'
COMPONENTS = {
    'real': ['BigMapType.get/update/duplicate/aggregate_lazy_diff/attach_context', 'ExecutionContext.register_big_map/get_big_map_value/get_big_map_diff',
             'forge_script_expr / key.pack', 'instructions GET/MEM/UPDATE/GET_AND_UPDATE/DUP/BEGIN/COMMIT', 'Interpreter.execute (rollback of failing cells)',
             'RPC stack for lazy reads (ShellQuery, RpcNode retry loop)'],
    'stub': ['HTTP transport', 'the node\'s big_map store (SimNode.big_maps) and its application of committed diffs', 'instruction-level fault point'],
}
ASSUMPTIONS = [
    'big_maps passed by id in the parameter are generated for their observations (GET/MEM/GET_AND_UPDATE results must follow the layered model); '
    'the diff of the unfinished `copy` action is not judged.',
    'A read that exhausts the retry budget is outside the statement (pytezos maps any RpcError to "absent"); bursts stay below the cap.',
    'The node assigns real ids (>= 1000) on alloc, as a real node does; interpreter-local placeholder ids are mapped by position.',
    'Independent key hashing covers the key types generated here (int, string, bytes, pair int string, pair int int int string), using the legacy (nested-pair) packing for combs, as the protocol does for big_map keys.',
]
EXPECTED_PROBES = ['big_map_inside_map_storage', 'transaction_through_session_RUN', 'two_versions_of_one_fresh_big_map_stored', 'big_map_inside_option_storage', 'static_run_code_transaction', 'long_lived_session_reused', 'session_switched_network', 'parameter_big_map_session', 'empty_list_value_on_chain_read', 'sibling_key_types_same_text', 'read_chain_only_key', 'update_chain_only_key', 'remove_chain_only_key', 'reinsert_after_remove', 'read_after_local_remove_of_chain_key',
                   'commit_with_removals', 'abandoned_session', 'failed_cell_midway', 'transient_on_read', 'second_txn_reads_first_txn_writes', 'dup_divergent']

URI = 'http://node0.sim:8732'
REMOVED = '__removed__'


# ---------------------------------------------------------------- independent packing
def _zarith_signed(n):
    neg = n < 0
    n = abs(n)
    first = n & 0x3F
    n >>= 6
    out = bytearray()
    b = first | (0x40 if neg else 0)
    if n:
        b |= 0x80
    out.append(b)
    while n:
        b = n & 0x7F
        n >>= 7
        if n:
            b |= 0x80
        out.append(b)
    return bytes(out)


def pack_key(ktype, k):
    if ktype == 'int':
        body = b'\x00' + _zarith_signed(k)
    elif ktype == 'string':
        raw = k.encode()
        body = b'\x01' + len(raw).to_bytes(4, 'big') + raw
    elif ktype == 'bytes':
        raw = bytes.fromhex(k)
        body = b'\x0a' + len(raw).to_bytes(4, 'big') + raw
    elif ktype == 'pair':
        i, s = k
        raw = s.encode()
        body = b'\x07\x07' + b'\x00' + _zarith_signed(i) + b'\x01' + len(raw).to_bytes(4, 'big') + raw
    elif ktype == 'comb4':
        # big_map keys are hashed over the *legacy* packing: a right comb is nested binary Pairs
        *ints, s = k
        raw = s.encode()
        body = b'\x01' + len(raw).to_bytes(4, 'big') + raw
        for i in reversed(ints):
            body = b'\x07\x07' + b'\x00' + _zarith_signed(i) + body
    elif ktype in ('address', 'key_hash', 'address_mix'):
        addr, _, ep = k.partition('%')
        if addr[:3] in ('tz1', 'tz2', 'tz3'):
            tag = {'tz1': 0, 'tz2': 1, 'tz3': 2}[addr[:3]]
            raw = bytes([tag]) + oc.b58dec(addr[:3], addr)
            if ktype != 'key_hash':
                raw = b'\x00' + raw
        elif addr.startswith('KT1'):
            raw = b'\x01' + oc.b58dec('KT1', addr) + b'\x00'
        else:  # sr1
            import base58 as _b58

            raw = b'\x03' + _b58.b58decode_check(addr)[3:] + b'\x00'
        if ep and ep != 'default':
            raw += ep.encode()
        body = b'\x0a' + len(raw).to_bytes(4, 'big') + raw
    else:
        raise core.HarnessError(ktype)
    return b'\x05' + body


def key_hash(ktype, k):
    return oc.b58enc('expr', hashlib.blake2b(pack_key(ktype, k), digest_size=32).digest())


def key_michelson(ktype, k):
    if ktype == 'int':
        return str(k)
    if ktype in ('string', 'address', 'key_hash', 'address_mix'):
        return f'"{k}"'
    if ktype == 'bytes':
        return '0x' + k
    if ktype == 'comb4':
        return '(Pair ' + ' '.join(str(i) for i in k[:-1]) + f' "{k[-1]}")'
    return f'(Pair {k[0]} "{k[1]}")'


def flatten_pairs(m):
    """Normalise a Micheline value: right-nested binary Pairs and flat n-ary Pairs become one flat list of leaves."""
    if isinstance(m, dict) and m.get('prim') == 'Pair':
        args = list(m.get('args', []))
        while args and isinstance(args[-1], dict) and args[-1].get('prim') == 'Pair':
            args = args[:-1] + list(args[-1]['args'])
        return {'prim': 'Pair', 'args': [flatten_pairs(a) for a in args]}
    if isinstance(m, list):
        return {'prim': 'Pair', 'args': [flatten_pairs(a) for a in m]} if len(m) > 1 else m
    return m


def key_micheline(ktype, k):
    if ktype == 'int':
        return {'int': str(k)}
    if ktype in ('string', 'address', 'key_hash', 'address_mix'):
        return {'string': k}
    if ktype == 'bytes':
        return {'bytes': k}
    if ktype == 'comb4':
        return {'prim': 'Pair', 'args': [{'int': str(i)} for i in k[:-1]] + [{'string': k[-1]}]}
    return {'prim': 'Pair', 'args': [{'int': str(k[0])}, {'string': k[1]}]}


KTYPE_M = {'int': 'int', 'string': 'string', 'bytes': 'bytes', 'pair': '(pair int string)', 'comb4': '(pair int int int string)', 'address': 'address',
           'key_hash': 'key_hash', 'address_mix': 'address'}
VTYPE_M = {'string': 'string', 'list_nat': '(list nat)', 'opt_unit': '(option unit)', 'unit': 'unit'}
_ADDRS = ['tz1QBxCwcEEcvz5H5U1WkRvuGCVBFgiQGBbe', 'tz1iDKWtiNDiUJYuPv557Ag547zfS1MhZ17g', 'tz2BzLwiqRPz3nouEUdsywHpKJy9TsZWeEh3', 'tz2PYyg1yu8EgS6vDMwTu8ZrsxDEkgFwi8VJ',
          'tz3TW8qv2nGn3QnRU7TiJtu8HrZoArWJdXte', 'tz3U5FFmcM57YVo1eb7W9rkS3NbDWeE1av6X']


def _num(tok):
    return int(''.join(ch for ch in tok if ch.isdigit()) or '0')


def val_micheline(vtype, tok):
    if vtype == 'string':
        return {'string': tok}
    if vtype == 'unit':
        return {'prim': 'Unit'}  # the big_map-as-set idiom: one possible value
    if vtype == 'opt_unit':
        # only two values exist; they are told apart by parity of the token number
        return {'prim': 'None'} if _num(tok) % 2 else {'prim': 'Some', 'args': [{'prim': 'Unit'}]}
    return [] if tok.startswith('E') else [{'int': str(_num(tok))}]


def val_michelson(vtype, tok):
    if vtype == 'string':
        return f'"{tok}"'
    if vtype == 'unit':
        return 'Unit'
    if vtype == 'opt_unit':
        return 'None' if _num(tok) % 2 else '(Some Unit)'
    return '{}' if tok.startswith('E') else '{ %d }' % _num(tok)

UNIVERSES = {
    'int': [0, 1, -1, 63, 64, -65, 10**12],
    'string': ['', 'a', 'b', 'ab', 'key with space', 'zzzzzzzzzzzzzzzzzzzzzzzzzzzzzzzz'],
    'bytes': ['', '00', '01', 'ff', 'deadbeef', '0000'],
    'pair': [[0, ''], [0, 'a'], [1, 'a'], [-1, 'a'], [1, 'b'], [64, 'zz']],
    'comb4': [[0, 0, 0, ''], [1, 2, 3, 'x'], [1, 1, 1, 'a'], [-1, 64, 0, 'a'], [1, 2, 3, 'y'], [0, 0, 1, '']],
    'address': _ADDRS,
    'key_hash': _ADDRS,
    'address_mix': ['tz1QBxCwcEEcvz5H5U1WkRvuGCVBFgiQGBbe', 'KT1BEqzn5Wx8uJrZNvuS9DVHmLvG9td3fDLi', 'sr1JZsZT5u27MUQXeTh1aHqZBo8NvyxRKnyv',
                    'KT1BEqzn5Wx8uJrZNvuS9DVHmLvG9td3fDLi%transfer', 'tz3U5FFmcM57YVo1eb7W9rkS3NbDWeE1av6X', 'KT1Ha4yFVeyzw6KRAdkzq6TxDHB97KG4pZe8'],
}


def gen(seed, tier):
    rng = rng_for(seed, 15)
    ktype = rng.choice(['int', 'int', 'string', 'bytes', 'pair', 'comb4', 'address', 'address', 'address_mix', 'address_mix'])
    # the second on-chain big_map has the same key type, or a sibling type whose keys are written with the same text
    sibling = {'address': 'key_hash', 'string': 'string'}.get(ktype, ktype)
    ktypes = {'1000': ktype, '1001': sibling if rng.random() < 0.8 else ktype}
    if rng.random() < 0.5:
        ktypes = {'1000': ktypes['1001'], '1001': ktypes['1000']}
    vtype = rng.choice(['string', 'string', 'string', 'list_nat', 'opt_unit', 'unit'])
    nkeys = rng.choice([1, 2, 3, 4, 6])
    keys = rng.sample(UNIVERSES[ktype], min(nkeys, len(UNIVERSES[ktype])))
    wide = ktype == 'int' and rng.random() < (0.06 if tier == 'thorough' else 0.02)
    if wide:
        # a wider universe and long histories: dozens of distinct keys in one local diff (beyond the statement's "small key universes";
        # the code is size-agnostic, so this is the same requirement on a longer input)
        keys = list(range(100, 100 + rng.choice([34, 40, 48])))
    chain0 = {}
    vn = 0

    def newval(prefix):
        nonlocal vn
        vn += 1
        if vtype == 'list_nat' and rng.random() < 0.25:
            return f'E{vn}'  # the empty list: a legal value whose JSON form is falsy
        return f'{prefix}{vn}'

    for bm in ('1000', '1001'):
        chain0[bm] = {}
        for ki in range(len(keys)):
            if rng.random() < 0.5:
                chain0[bm][str(ki)] = newval('c')
    ntx = rng.choice([1, 1, 2, 3, 5]) if tier == 'thorough' else rng.choice([1, 1, 2, 3])
    long_run = rng.random() < (0.15 if tier == 'thorough' else 0.03)
    if long_run:
        ntx = rng.choice([6, 9])
    if wide:
        ntx = rng.choice([1, 2])
    p_fail = rng.choice([0.0, 0.0, 0.15, 0.3])
    p_fault = rng.choice([0.0, 0.0, 0.2, 0.5])
    opmix = [o for o in ('get', 'mem', 'upd_some', 'upd_none', 'gau_some', 'gau_none', 'dup_drop', 'dup_keep', 'dup_both') if rng.random() < 0.75] or ['get', 'upd_some']
    same_session = rng.random() < 0.35  # one long-lived REPL session for all transactions (a notebook), instead of a fresh one each
    two_nets = same_session and rng.random() < 0.4
    chain0_b = {}
    if two_nets:
        # a second network holding big_maps with the same ids but other contents; the session switches with RESET "<network>"
        for bm in ('1000', '1001'):
            chain0_b[bm] = {str(ki): newval('d') for ki in range(len(keys)) if rng.random() < 0.6}
    steps = []
    for t in range(ntx):
        if two_nets and t > 0 and rng.random() < 0.6:
            steps.append({'op': 'switch'})
        src = rng.choice(['chain', 'chain', 'chain', 'literal', 'empty', 'prev', 'param'])
        if src == 'literal' and ktype == 'address_mix':
            src = 'empty'
        static = src != 'param' and rng.random() < 0.2
        st = {'op': 'begin', 'src': src, 'bm': rng.choice(['1000', '1000', '1001'])}
        if static:
            # the whole transaction is one contract executed through Interpreter.run_code (the non-REPL entry point)
            st['static'] = rng.choice(['readable', 'optimized', 'legacy_optimized', 'session_run', 'session_run'])
        elif src != 'param' and rng.random() < 0.15:
            st['wrap'] = rng.choice(['option', 'option', 'map'])  # storage (option (big_map ..)): the lazily initialised idiom; or a map of big_maps
        elif src in ('literal', 'empty') and rng.random() < 0.3:
            # at the end the fresh big_map is DUPed, the two copies are updated differently and both are stored (two storage slots)
            vn_a, vn_b = newval('s'), newval('s')
            st['dup_slots'] = {'k_a': rng.randrange(len(keys)), 'v_a': vn_a, 'k_b': rng.randrange(len(keys)), 'v_b': vn_b, 'rm_b': rng.random() < 0.3}
        if src == 'literal':
            lit = {}
            for ki in sorted(rng.sample(range(len(keys)), rng.randint(0, len(keys)))):
                lit[str(ki)] = newval('l')
            st['lit'] = lit
        steps.append(st)
        for _ in range(rng.randint(90, 140) if wide else rng.randint(10, 30) if long_run else rng.randint(1, 12 if tier == 'thorough' else 8)):
            op = rng.choice(opmix)
            s = {'op': op, 'k': rng.randrange(len(keys)), 'v': newval('v')}
            if op.startswith('dup_'):
                s['inner'] = rng.choice(['upd_some', 'upd_none', 'gau_some'])
            if op == 'dup_both':
                # the copy and the original are updated differently; the copy is kept
                s['inner2'] = rng.choice(['upd_some', 'upd_none'])
                s['k2'] = rng.randrange(len(keys))
                s['v2'] = newval('w')
            if rng.random() < p_fail:
                s['fail'] = rng.choice([{'mode': 'tail'}, {'mode': 'inject', 'ordinal': rng.randint(1, 5), 'when': rng.choice(['entry', 'exit'])}])
            if rng.random() < p_fault:
                s['faults'] = {'1': rng.choice([{'f': 'transient', 'n': rng.randint(1, 5), 'status': rng.choice([500, 503])}, {'f': 'preval', 'n': rng.randint(1, 4)},
                                                {'f': 'latency', 'ms': rng.choice([10, 5000])}])}
            steps.append(s)
        steps.append({'op': 'commit'} if rng.random() < 0.8 else {'op': 'abandon'})
    scn = {'prop': ID, 'ktype': ktype, 'ktypes': ktypes, 'vtype': vtype, 'keys': keys, 'chain0': chain0, 'chain0_b': chain0_b, 'same_session': same_session, 'steps': steps}
    rng_rel = rng_for(seed, 1515)  # a separate stream: the scenarios of earlier versions keep their seeds
    if not wide and rng_rel.random() < 0.05:
        # a notebook that follows a relative block through several transactions on the existing big_maps
        same_session, two_nets = True, False
        chain0_b = {}
        scn['same_session'], scn['chain0_b'] = True, chain0_b
        scn['steps'] = steps = [st for st in steps if st['op'] != 'switch']
        for st in steps:
            if st['op'] == 'begin':
                st.pop('static', None)
                if rng_rel.random() < 0.7:
                    st['src'] = 'chain'
                    for extra in ('lit', 'dup_slots'):
                        st.pop(extra, None)
            elif st['op'] == 'abandon' and rng_rel.random() < 0.7:
                st['op'] = 'commit'
        for _ in range(rng_rel.choice([0, 1, 2, 3])):
            # further short transactions on the same few keys: what one writes, a later one reads once the relative block has caught up
            steps.append({'op': 'begin', 'src': 'chain', 'bm': rng_rel.choice(['1000', '1000', '1001'])})
            for _ in range(rng_rel.randint(1, 4)):
                steps.append({'op': rng_rel.choice(['get', 'get', 'mem', 'upd_some', 'gau_some', 'upd_none']), 'k': rng_rel.randrange(len(keys)), 'v': newval('r')})
            steps.append({'op': 'commit'})
        scn['rel_block'] = rng_rel.choice([1, 1, 2])
    elif same_session and not two_nets and not any(st.get('static') for st in steps) and rng_rel.random() < 0.5:
        # the notebook's context follows a *relative* block (head~r): "the on-chain contents" are those of the block the id designates
        # when the value is read, so every transaction starts from the state r blocks behind the (moving) head
        scn['rel_block'] = rng_rel.choice([1, 1, 2])
    if rng.random() < 0.25:
        # a young chain: the existing big_maps have small ids, in the range of the placeholder ids the interpreter hands out itself
        a, b = rng.choice([('0', '1'), ('1', '2'), ('2', '0'), ('3', '1'), ('1', '0')])
        ren = {'1000': a, '1001': b}
        scn['ktypes'] = {ren[k]: v for k, v in ktypes.items()}
        scn['chain0'] = {ren[k]: v for k, v in chain0.items()}
        scn['chain0_b'] = {ren[k]: v for k, v in chain0_b.items()}
        for st in steps:
            if st.get('bm') in ren:
                st['bm'] = ren[st['bm']]
    return scn


def cell_for(step, ktype, keys, vtype='string'):
    K = KTYPE_M[ktype]
    V = VTYPE_M[vtype]
    k = key_michelson(ktype, tuple(keys[step['k']]) if ktype in ('pair', 'comb4') else keys[step['k']])
    v = val_michelson(vtype, step['v'])

    def upd(kind):
        if kind == 'upd_some':
            return [f'PUSH {V} {v}', 'SOME', f'PUSH {K} {k}', 'UPDATE']
        if kind == 'upd_none':
            return [f'NONE {V}', f'PUSH {K} {k}', 'UPDATE']
        if kind == 'gau_some':
            return [f'PUSH (option {V}) (Some {v})', f'PUSH {K} {k}', 'GET_AND_UPDATE']
        if kind == 'gau_none':
            return [f'PUSH (option {V}) None', f'PUSH {K} {k}', 'GET_AND_UPDATE']
        raise core.HarnessError(kind)

    op = step['op']
    if op == 'get':
        return ['DUP', f'PUSH {K} {k}', 'GET'], 'top'
    if op == 'mem':
        return ['DUP', f'PUSH {K} {k}', 'MEM'], 'top'
    if op in ('upd_some', 'upd_none'):
        return upd(op), None
    if op in ('gau_some', 'gau_none'):
        return upd(op), 'top'
    if op == 'dup_drop':
        inner = upd(step['inner'])
        return ['DUP'] + inner + (['DROP'] if step['inner'].startswith('gau') else []) + ['DROP'], None
    if op == 'dup_keep':
        inner = upd(step['inner'])
        return ['DUP'] + inner + (['DROP'] if step['inner'].startswith('gau') else []) + ['SWAP', 'DROP'], None
    if op == 'dup_both':
        inner = upd(step['inner'])
        k2 = key_michelson(ktype, tuple(keys[step['k2']]) if ktype in ('pair', 'comb4') else keys[step['k2']])
        v2 = val_michelson(vtype, step['v2'])
        other = [f'PUSH {V} {v2}', 'SOME', f'PUSH {K} {k2}', 'UPDATE'] if step['inner2'] == 'upd_some' else [f'NONE {V}', f'PUSH {K} {k2}', 'UPDATE']
        return ['DUP'] + inner + (['DROP'] if step['inner'].startswith('gau') else []) + ['SWAP'] + other + ['DROP'], None
    raise core.HarnessError(op)


def find_lazy_diff(node, cls='CommitInstruction'):
    """Locate the lazy_diff of COMMIT (or RUN) in a rendered instruction tree."""
    if isinstance(node, dict):
        if node.get('cls') == cls:
            return node.get('lazy_diff'), node.get('result')
        for v in node.values():
            r = find_lazy_diff(v, cls)
            if r is not None:
                return r
    elif isinstance(node, list):
        for v in node:
            r = find_lazy_diff(v, cls)
            if r is not None:
                return r
    return None


def execute(scn, want_log=False):
    from pytezos.michelson.repl import Interpreter
    from pytezos.rpc.node import RpcNode
    from pytezos.rpc.shell import ShellQuery

    rs.install_fault_points()
    sim = core.Sim()
    node = nodesim.SimNode(sim, {'big_map_snapshots': True})
    node.bake(2)
    keys = [tuple(k) if isinstance(k, list) else k for k in scn['keys']]
    vtype = scn.get('vtype', 'string')
    V = VTYPE_M[vtype]
    bm_ktype = {int(bm): kt for bm, kt in (scn.get('ktypes') or {'1000': scn['ktype'], '1001': scn['ktype']}).items()}
    HS = {kt: [key_hash(kt, k) for k in keys] for kt in set(bm_ktype.values())}
    # durable state + reference model
    nets = {'A': {'big_maps': {}, 'model': {}, 'last': [None]}, 'B': {'big_maps': {}, 'model': {}, 'last': [None]}}
    for net, src0 in (('A', scn['chain0']), ('B', scn.get('chain0_b') or {})):
        for bm, content in src0.items():
            nets[net]['big_maps'][int(bm)] = {HS[bm_ktype[int(bm)]][int(ki)]: val_micheline(vtype, v) for ki, v in content.items()}
            nets[net]['model'][int(bm)] = {int(ki): v for ki, v in content.items()}
    cur_net = ['A']
    node.big_maps = nets['A']['big_maps']
    node.bake(1)  # the head block's context holds the initial big_maps
    model = nets['A']['model']
    rel = int(scn.get('rel_block') or 0)
    model_hist = {node.head['level']: json.loads(json.dumps(model))}  # level -> the model of that block's context (keys become strings)

    def pinned_level():
        return max(0, node.head['level'] - rel)

    def pinned_model(bm):
        return {int(k): v for k, v in (model_hist.get(pinned_level(), {}).get(str(bm)) or {}).items()}
    next_id = [2000]
    def routed(req):
        # two networks behind one transport: requests are answered from the store of the network they were addressed to
        host = req['host']
        net = 'B' if '127.0.0.1' in host else 'A'
        path = req['path'][len('/mainnet'):] if req['path'].startswith('/mainnet/') else req['path']
        node.big_maps = nets[net]['big_maps']
        try:
            return node.handle(dict(req, path=path))
        finally:
            node.big_maps = nets[cur_net[0]]['big_maps']

    tr = core.Transport(sim, routed, max_requests=3000)
    step_state = {'first': 0, 'faults': {}}

    def fault_for(req):
        if '/context/big_maps/' not in req['path']:
            return None
        rel = req['i'] - step_state['first']
        return step_state['faults'].get(str(rel))

    tr.fault_for = fault_for
    violations = []
    probes = {}
    states = set()
    judged = [0]
    last_committed = nets['A']['last']
    shared = {'interp': None}

    def bump(k):
        probes[k] = probes.get(k, 0) + 1

    def violate(kind, sig, **detail):
        violations.append({'kind': kind, 'sig': f'C15/{sig}', 'detail': detail})

    sess = None  # {'interp','base_id','base':dict,'overlay':dict,'src'}

    def kstate(ki):
        on_chain = ki in sess['base']
        ov = sess['overlay'].get(ki)
        if ov is None:
            o = 'absent'
        elif ov == REMOVED:
            o = 'removed'
        elif sess['removed_once'].get(ki):
            o = 'reinserted'
        else:
            o = 'updated'
        return f'{"chain" if on_chain else "nochain"}/{o}'

    def lookup(ki):
        ov = sess['overlay'].get(ki)
        if ov == REMOVED:
            return None
        if ov is not None:
            return ov
        return sess['base'].get(ki)

    def apply_update(ki, val):
        if val is None:
            if lookup(ki) is not None or ki in sess['base']:
                sess['overlay'][ki] = REMOVED
            else:
                sess['overlay'].pop(ki, None)
            sess['removed_once'][ki] = True
        else:
            sess['overlay'][ki] = val

    def run(text, fault=None):
        step_state['first'] = tr.attempts
        res, count, fired = rs.run_cell(sess['interp'], text, fault)
        return res

    with core.Seams(sim, tr):
        for i, st in enumerate(scn['steps']):
            op = st['op']
            step_state['faults'] = st.get('faults') or {}
            sim.ev('step', i=i, op=op, k=st.get('k'))
            if op == 'switch':
                if shared['interp'] is None:
                    continue
                if sess is not None:
                    bump('abandoned_session')
                sess = None
                cur_net[0] = 'B' if cur_net[0] == 'A' else 'A'
                node.big_maps = nets[cur_net[0]]['big_maps']
                model = nets[cur_net[0]]['model']
                last_committed = nets[cur_net[0]]['last']
                step_state['first'] = tr.attempts
                rsw, _, _ = rs.run_cell(shared['interp'], 'RESET "sandbox"' if cur_net[0] == 'B' else 'RESET "mainnet"')
                if rsw.error is not None:
                    raise core.HarnessError(f'network switch failed: {rsw.stdout}')
                bump('session_switched_network')
                continue
            if op == 'begin':
                if sess is not None:
                    bump('abandoned_session')
                if scn.get('same_session') and shared['interp'] is not None:
                    interp = shared['interp']  # the notebook goes on: same interpreter, same context
                    bump('long_lived_session_reused')
                else:
                    interp = Interpreter()
                    if rel:
                        interp.context.block_id = f'head~{rel}'
                        bump('context_follows_relative_block')
                    if scn.get('same_session'):
                        shared['interp'] = interp
                        step_state['first'] = tr.attempts
                        r_attach, _, _ = rs.run_cell(interp, 'RESET "mainnet"')  # attach through the public instruction (network A)
                        if r_attach.error is not None:
                            raise core.HarnessError(f'attach failed: {r_attach.stdout}')
                    else:
                        interp.context.shell = ShellQuery(RpcNode(URI))
                src = st['src']
                if src == 'prev' and last_committed[0] is None:
                    src = 'chain'
                sess = {'interp': interp, 'overlay': {}, 'removed_once': {}, 'src': src}
                r0 = None
                ktype = bm_ktype[int(st['bm'])] if src != 'prev' else bm_ktype[last_committed[0]]
                K = KTYPE_M[ktype]
                H = HS[ktype]
                sess['ktype'] = ktype
                pairs = []
                if src in ('chain', 'prev', 'param'):
                    bm = int(st['bm']) if src != 'prev' else last_committed[0]
                    sess['base_id'] = bm
                    sess['base'] = pinned_model(bm) if rel else dict(model.get(bm, {}))
                    if rel and sess['base'] != dict(model.get(bm, {})):
                        bump('relative_block_differs_from_head')
                    lit = str(bm)
                    if src == 'prev':
                        bump('second_txn_reads_first_txn_writes')
                else:
                    sess['base_id'] = None
                    sess['base'] = {}
                    items = st.get('lit', {}) if src == 'literal' else {}
                    pairs = sorted(((keys[int(ki)], v, int(ki)) for ki, v in items.items()), key=lambda t: _sort_key(ktype, t[0]))
                    lit = '{ ' + ' ; '.join(f'Elt {key_michelson(ktype, k)} {val_michelson(vtype, v)}' for k, v, _ in pairs) + ' }'
                    for k, v, ki in pairs:
                        sess['overlay'][ki] = v
                if st.get('static'):
                    sess['static'] = st['static']
                    sess['code'] = []
                    sess['storage_lit'] = lit
                    sess['storage_micheline'] = ({'int': str(sess['base_id'])} if sess['base_id'] is not None else
                                                 [{'prim': 'Elt', 'args': [key_micheline(ktype, k), val_micheline(vtype, v)]} for k, v, _ in pairs])
                    bump('static_run_code_transaction')
                    continue
                if src == 'param':
                    # the on-chain big_map is handed over by id in the *parameter* (registered as a copy under a temporary id):
                    # observations are within the statement; its `copy` diff is unfinished in pytezos and is not judged
                    r0 = run(f'parameter (big_map {K} {V}) ; storage (big_map {K} {V}) ; code {{ CDR ; NIL operation ; PAIR }}')
                    r1 = run(f'BEGIN {lit} {{}}')
                    r2 = run('CAR')
                elif st.get('wrap') == 'option':
                    sess['wrap'] = 'option'
                    r0 = run(f'parameter unit ; storage (option (big_map {K} {V})) ; code {{ CDR ; NIL operation ; PAIR }}')
                    r1 = run(f'BEGIN Unit (Some {lit})')
                    r2 = run(f'CDR ; IF_NONE {{ EMPTY_BIG_MAP {K} {V} }} {{}}')
                    bump('big_map_inside_option_storage')
                elif st.get('wrap') == 'map':
                    sess['wrap'] = 'map'
                    r0 = run(f'parameter unit ; storage (map string (big_map {K} {V})) ; code {{ CDR ; NIL operation ; PAIR }}')
                    r1 = run(f'BEGIN Unit {{ Elt "a" {lit} }}')
                    r2 = run(f'CDR ; PUSH string "a" ; GET ; IF_NONE {{ EMPTY_BIG_MAP {K} {V} }} {{}}')
                    bump('big_map_inside_map_storage')
                elif st.get('dup_slots'):
                    sess['dup_slots'] = st['dup_slots']
                    r0 = run(f'parameter unit ; storage (pair (big_map {K} {V}) (big_map {K} {V})) ; code {{ CDR ; NIL operation ; PAIR }}')
                    r1 = run(f'BEGIN Unit (Pair {lit} {{}})')
                    r2 = run('CDR ; CAR')
                else:
                    r0 = run(f'parameter unit ; storage (big_map {K} {V}) ; code {{ CDR ; NIL operation ; PAIR }}')
                    r1 = run(f'BEGIN Unit {lit}')
                    r2 = run('CDR')
                if any(r.error is not None for r in (r0, r1, r2)):
                    raise core.HarnessError(f'session setup failed: {[r.stdout for r in (r0, r1, r2)]}')
                continue
            if sess is None:
                continue
            if op == 'abandon' and sess.get('static'):
                sess = None
                continue
            if op == 'abandon':
                bump('abandoned_session')
                before = json.dumps(node.big_maps, sort_keys=True)
                sess = None
                if json.dumps(node.big_maps, sort_keys=True) != before:
                    violate('abort', 'abort-leak')
                continue
            if op == 'commit' and sess['src'] == 'param':
                bump('parameter_big_map_session')
                sess = None  # nothing durable is judged for a parameter big_map (see above)
                continue
            if op == 'commit' and sess.get('static') == 'session_run':
                # the whole transaction is one contract run through the session's own RUN instruction (the notebook way)
                K_, V_ = KTYPE_M[sess['ktype']], VTYPE_M[vtype]
                body = ' ; '.join(['CDR'] + sess['code'] + ['NIL operation', 'PAIR'])
                r0 = run(f'parameter unit ; storage (big_map {K_} {V_}) ; code {{ {body} }}')
                res = run(f'RUN %default Unit {sess["storage_lit"]}') if r0.error is None else r0
                rr = rs.render_result(res)
                if res.error is not None:
                    violate('commit', 'session-run-raises', error=rr['error'], code=body[:400])
                    sess = None
                    continue
                found = find_lazy_diff(rr['instr'], cls='RunInstruction')
                ld = found[0] if found else None
                bump('transaction_through_session_RUN')
            elif op == 'commit' and sess.get('static'):
                from pytezos.michelson.parse import michelson_to_micheline

                K_, V_ = KTYPE_M[sess['ktype']], VTYPE_M[vtype]
                body = ' ; '.join(['CDR'] + sess['code'] + ['NIL operation', 'PAIR'])
                script = michelson_to_micheline(f'parameter unit ; storage (big_map {K_} {V_}) ; code {{ {body} }}')
                step_state['first'] = tr.attempts
                uri_now = 'http://127.0.0.1:8732' if cur_net[0] == 'B' else URI
                _ops, _storage, ld_raw, _stdout, err = Interpreter.run_code(
                    parameter={'prim': 'Unit'}, storage=sess['storage_micheline'], script=script, output_mode=sess['static'],
                    shell=ShellQuery(RpcNode(uri_now)))
                if err is not None:
                    violate('commit', 'static-run-raises', error=_stdout[-1:] if _stdout else repr(err), code=body[:400])
                    sess = None
                    continue
                ld = rs.canon_lazy_diff(ld_raw)
            elif op == 'commit' and sess.get('dup_slots'):
                ds = sess['dup_slots']
                Kt, Vt = KTYPE_M[sess['ktype']], VTYPE_M[vtype]

                def _k(i):
                    return key_michelson(sess['ktype'], keys[i])

                upd_a = f'PUSH {Vt} {val_michelson(vtype, ds["v_a"])} ; SOME ; PUSH {Kt} {_k(ds["k_a"])} ; UPDATE'
                upd_b = (f'NONE {Vt} ; PUSH {Kt} {_k(ds["k_b"])} ; UPDATE' if ds['rm_b'] else
                         f'PUSH {Vt} {val_michelson(vtype, ds["v_b"])} ; SOME ; PUSH {Kt} {_k(ds["k_b"])} ; UPDATE')
                res = run(f'DUP ; {upd_a} ; SWAP ; {upd_b} ; SWAP ; PAIR ; NIL operation ; PAIR ; COMMIT')
                rr = rs.render_result(res)
                judged[0] += 1
                bump('two_versions_of_one_fresh_big_map_stored')
                if res.error is not None:
                    violate('commit', 'commit-raises', error=rr['error'])
                    sess = None
                    continue
                found = find_lazy_diff(rr['instr'])
                ld2 = found[0] if found else None
                try:
                    flat = flatten_pairs(found[1]['value'])['args']  # (operations, slot0, slot1) whatever the comb layout
                    slots = [a['int'] for a in flat[-2:]]
                except Exception:  # noqa: BLE001
                    slots = None
                base_final = dict(sess['base'])
                for kk, ov in sess['overlay'].items():
                    if ov == REMOVED:
                        base_final.pop(kk, None)
                    else:
                        base_final[kk] = ov
                want_a = dict(base_final)
                want_a[ds['k_a']] = ds['v_a']
                want_b = dict(base_final)
                if ds['rm_b']:
                    want_b.pop(ds['k_b'], None)
                else:
                    want_b[ds['k_b']] = ds['v_b']
                if not ld2 or len(ld2) != 2 or not slots or len(set(slots)) != 2 or sorted(e['id'] for e in ld2) != sorted(slots):
                    violate('commit', 'two-slots-diff-shape', lazy_diff_ids=[e.get('id') for e in (ld2 or [])], storage_ids=slots)
                    sess = None
                    continue
                for slot_id, want_slot, name in ((slots[0], want_a, 'copy'), (slots[1], want_b, 'original')):
                    ent = next(e for e in ld2 if e['id'] == slot_id)
                    got = {}
                    for u in ent['diff'].get('updates', []):
                        if u.get('value') is not None:
                            got[u['key_hash']] = u['value']
                        else:
                            got.pop(u['key_hash'], None)
                    exp = {H[kk]: val_micheline(vtype, vv) for kk, vv in want_slot.items()}
                    if ent['diff']['action'] != 'alloc' or got != exp:
                        violate('commit', f'two-slots-wrong-content:{name}', action=ent['diff']['action'], got=got, expected=exp)
                        break
                sess = None
                continue
            elif op == 'commit':
                wrap_prefix = {'option': 'SOME ; ',
                               'map': f'SOME ; EMPTY_MAP string (big_map {KTYPE_M[sess["ktype"]]} {VTYPE_M[vtype]}) ; SWAP ; PUSH string "a" ; UPDATE ; '}.get(sess.get('wrap'), '')
                res = run(wrap_prefix + 'NIL operation ; PAIR ; COMMIT')
                rr = rs.render_result(res)
                if res.error is not None:
                    violate('commit', 'commit-raises', error=rr['error'])
                    sess = None
                    continue
                found = find_lazy_diff(rr['instr'])
                ld = found[0] if found else None
            if op == 'commit':
                judged[0] += 1
                if not ld or len(ld) != 1:
                    violate('commit', 'commit-diff-shape', lazy_diff=ld)
                    sess = None
                    continue
                entry = ld[0]
                action = entry['diff']['action']
                updates = entry['diff'].get('updates', [])
                if sess['base_id'] is not None:
                    if action != 'update' or entry['id'] != str(sess['base_id']):
                        violate('commit', 'commit-wrong-target', action=action, id=entry['id'], expected_id=sess['base_id'])
                        sess = None
                        continue
                    target = sess['base_id']
                else:
                    if action != 'alloc':
                        violate('commit', 'commit-wrong-action', action=action)
                        sess = None
                        continue
                    target = next_id[0]
                    next_id[0] += 1
                    node.big_maps[target] = {}
                    model[target] = {}
                    bm_ktype[target] = sess['ktype']
                # the node applies the diff to its durable store
                store = node.big_maps.setdefault(target, {})
                pinned_store = None
                head_model = None
                if rel and sess['base_id'] is not None:
                    # the statement's "on-chain contents" are those of the designated block: the diff is judged on a copy of them,
                    # while the chain itself applies it to its head
                    pblk = node.blocks[pinned_level()]
                    pinned_store = dict(((pblk['ctx'].get('big_maps') or {}).get(str(target))) or {})
                    head_model = dict(model.get(target, {}))
                seen_hashes = set()
                dup_hash = False
                for u in updates:
                    if u['key_hash'] in seen_hashes:
                        dup_hash = True
                    seen_hashes.add(u['key_hash'])
                    for stx in (store, pinned_store):
                        if stx is None:
                            continue
                        if 'value' in u and u['value'] is not None:
                            stx[u['key_hash']] = u['value']
                        else:
                            stx.pop(u['key_hash'], None)
                # the model's final dictionary
                final = dict(sess['base'])
                for ki, ov in sess['overlay'].items():
                    if ov == REMOVED:
                        final.pop(ki, None)
                    else:
                        final[ki] = ov
                model[target] = final
                head_store = store
                if pinned_store is not None:
                    # the model of the head follows the emitted diff (it is judged against the pinned contents below)
                    for u in updates:
                        if u['key_hash'] not in H:
                            continue
                        kj = H.index(u['key_hash'])
                        if 'value' in u and u['value'] is not None:
                            head_model[kj] = final.get(kj, 'x0')
                        else:
                            head_model.pop(kj, None)
                    model[target] = head_model
                    store = pinned_store
                node.bake(1)  # the transaction is included: a new head whose context holds the updated big_map
                model_hist[node.head['level']] = json.loads(json.dumps(model))
                want = {H[ki]: val_micheline(vtype, v) for ki, v in final.items()}
                if any(v == REMOVED for v in sess['overlay'].values()):
                    bump('commit_with_removals')
                # every diff entry's key_hash must be the hash of its own key
                bad_hash = None
                for u in updates:
                    kj = next((j for j, k in enumerate(keys) if flatten_pairs(key_micheline(ktype, k)) == flatten_pairs(u.get('key'))), None)
                    if kj is None or H[kj] != u['key_hash']:
                        bad_hash = {'key': u.get('key'), 'key_hash': u['key_hash'], 'expected': H[kj] if kj is not None else None}
                        break
                if bad_hash:
                    violate('keyhash', 'key-hash-mismatch', **bad_hash)
                elif dup_hash:
                    violate('commit', 'commit-duplicate-key', updates=updates)
                elif store != want:
                    missing = sorted(set(want) - set(store))
                    extra = sorted(set(store) - set(want))
                    wrong = sorted(h for h in set(want) & set(store) if want[h] != store[h])
                    which = 'missing' if missing else ('extra' if extra else 'wrong-value')
                    hh = (missing or extra or wrong)[0]
                    ki = H.index(hh) if hh in H else None
                    st_desc = kstate(ki) if ki is not None else '?'
                    violate('commit', f'commit-{which}:{st_desc}:src={sess["src"]}', target=target, key_index=ki, key=keys[ki] if ki is not None else None,
                            store=store.get(hh), expected=want.get(hh), updates=updates, overlay={str(k): v for k, v in sess['overlay'].items()},
                            chain_before={str(k): v for k, v in sess['base'].items()})
                    # keep the node authoritative for the next transaction (the model follows the store)
                    back = {json.dumps(val_micheline(vtype, tok), sort_keys=True): tok for tok in list(final.values()) + list(sess['base'].values()) + [o for o in sess['overlay'].values() if o != REMOVED]}
                    model[target] = {H.index(h): back.get(json.dumps(v, sort_keys=True), 'E0' if v == [] else 'x0') for h, v in head_store.items() if h in H}
                    model_hist[node.head['level']] = json.loads(json.dumps(model))
                last_committed[0] = target
                sess = None
                continue
            # ---- an operation cell
            ktype = sess['ktype']
            instrs, observe = cell_for(st, ktype, keys, vtype)
            fail = st.get('fail')
            fault = None
            if fail:
                if fail['mode'] == 'tail':
                    instrs = instrs + ['UNIT', 'FAILWITH']
                else:
                    fault = {'ordinal': fail['ordinal'], 'when': fail['when']}
            ki = st['k']
            pre_state = kstate(ki)
            if sess.get('static'):
                if fail:
                    continue  # a failing cell would have been rolled back: it is simply not part of the contract
                sess['code'].extend(instrs + (['DROP'] if observe == 'top' else []))
                states.add(f'{op}/{pre_state}/{sess["src"]}/static')
                if op in ('upd_some', 'gau_some'):
                    apply_update(ki, st['v'])
                elif op in ('upd_none', 'gau_none'):
                    apply_update(ki, None)
                elif op in ('dup_keep', 'dup_both'):
                    apply_update(ki, st['v'] if st['inner'] in ('upd_some', 'gau_some') else None)
                continue
            res = run(' ; '.join(instrs), fault)
            if step_state['faults'] and any(k.startswith('fault:') for k in sim.stats):
                if sim.stats.get('fault:transient', 0) + sim.stats.get('fault:preval', 0) + sim.stats.get('fault:latency', 0):
                    probes['transient_on_read'] = sim.stats.get('fault:transient', 0) + sim.stats.get('fault:preval', 0) + sim.stats.get('fault:latency', 0)
            if res.error is not None:
                if fail:
                    bump('failed_cell_midway')
                    continue  # rolled back: the model is unchanged and nothing was observed
                violate('op', f'op-raises:{op}:{pre_state}', error=res.stdout[-1:] if res.stdout else None, cell=' ; '.join(instrs))
                sess = None
                continue
            states.add(f'{op}/{pre_state}/{sess["src"]}')
            kind = st['inner'] if op.startswith('dup_') else op
            on_chain_only = (ki in sess['base']) and (ki not in sess['overlay'])
            if op in ('get', 'mem', 'gau_some', 'gau_none') and on_chain_only:
                bump('read_chain_only_key')
                if str(sess['base'].get(ki, '')).startswith('E'):
                    bump('empty_list_value_on_chain_read')
            if len(set(bm_ktype.values())) > 1:
                probes['sibling_key_types_same_text'] = 1
            if kind in ('upd_some', 'gau_some') and on_chain_only and op != 'dup_drop':
                bump('update_chain_only_key')
            if kind in ('upd_none', 'gau_none') and on_chain_only and op != 'dup_drop':
                bump('remove_chain_only_key')
            if kind in ('upd_some', 'gau_some') and sess['overlay'].get(ki) == REMOVED and op != 'dup_drop':
                bump('reinsert_after_remove')
            if op in ('get', 'mem') and sess['overlay'].get(ki) == REMOVED and ki in sess['base']:
                bump('read_after_local_remove_of_chain_key')
            if op.startswith('dup_'):
                bump('dup_divergent')
            # observation
            if observe == 'top':
                top = rs.render_item(res.stack.items[0])['value']
                cur = lookup(ki)
                if op == 'mem':
                    want = {'prim': 'True' if cur is not None else 'False'}
                else:
                    want = {'prim': 'Some', 'args': [val_micheline(vtype, cur)]} if cur is not None else {'prim': 'None'}
                judged[0] += 1
                if top != want:
                    violate('observation', f'observation:{op}:{pre_state}', cell=' ; '.join(instrs), got=top, expected=want, key=keys[ki],
                            overlay={str(k): v for k, v in sess['overlay'].items()}, chain={str(k): v for k, v in sess['base'].items()})
                r = run('DROP')
                if r.error is not None:
                    raise core.HarnessError('DROP failed')
            # model transition
            if op in ('upd_some', 'gau_some'):
                apply_update(ki, st['v'])
            elif op in ('upd_none', 'gau_none'):
                apply_update(ki, None)
            elif op in ('dup_keep', 'dup_both'):
                apply_update(ki, st['v'] if st['inner'] in ('upd_some', 'gau_some') else None)
        if sess is not None:
            bump('abandoned_session')

    out = {
        'violations': violations,
        'judged': judged[0],
        'faults': {k[6:]: v for k, v in sim.stats.items() if k.startswith('fault:')},
        'probes': probes,
        'states': sorted(states),
        'seqs': [],
        'virtual_ms': sim.now_ms,
        'unmodelled': dict(node.unmodelled),
        'digest': sim.digest(),
        'summary': {'ktypes': scn.get('ktypes'), 'vtype': vtype, 'keys': len(keys), 'steps': len(scn['steps']), 'requests': tr.attempts, 'big_maps_on_node': sorted(node.big_maps)},
    }
    if want_log:
        out['log'] = sim.log
    return out


def _sort_key(ktype, k):
    # Michelson literal maps must be sorted by key: ints numerically, strings/bytes lexicographically, pairs component-wise
    if ktype == 'bytes':
        return bytes.fromhex(k)
    if ktype == 'pair':
        return (k[0], k[1].encode())
    if ktype == 'comb4':
        return tuple(k[:-1]) + (k[-1].encode(),)
    if ktype == 'string':
        return k.encode()
    if ktype in ('address', 'key_hash', 'address_mix'):
        return pack_key(ktype, k)
    return k


def simplify(scn):
    def cp():
        return json.loads(json.dumps(scn))

    for i, st in enumerate(scn['steps']):
        for key in ('faults', 'fail'):
            if st.get(key):
                c = cp()
                del c['steps'][i][key]
                yield c
        for fld in ('wrap', 'dup_slots'):
            if st['op'] == 'begin' and st.get(fld):
                c = cp()
                del c['steps'][i][fld]
                yield c
        if st['op'] == 'begin' and st.get('lit'):
            c = cp()
            c['steps'][i]['lit'] = {}
            yield c
        if st['op'].startswith('dup_'):
            c = cp()
            c['steps'][i]['op'] = st['inner']
            for fld in ('inner', 'inner2', 'k2', 'v2'):
                c['steps'][i].pop(fld, None)
            yield c
    for bm, content in scn['chain0'].items():
        for ki in list(content):
            c = cp()
            del c['chain0'][bm][ki]
            yield c
    kts = scn.get('ktypes') or {}
    if len(set(kts.values())) > 1:
        for kt in sorted(set(kts.values())):
            c = cp()
            c['ktypes'] = {bm: kt for bm in kts}
            c['ktype'] = kt
            yield c
    if scn['ktype'] != 'int' and len(set(kts.values())) <= 1:
        c = cp()
        c['ktype'] = 'int'
        c['ktypes'] = {bm: 'int' for bm in (kts or {'1000': 0, '1001': 0})}
        c['keys'] = UNIVERSES['int'][: len(scn['keys'])]
        yield c
    if scn.get('vtype', 'string') != 'string':
        c = cp()
        c['vtype'] = 'string'
        yield c
    if scn.get('same_session') and not any(st['op'] == 'switch' for st in scn['steps']):
        c = cp()
        c['same_session'] = False
        yield c


def valid(scn):
    return any(s['op'] == 'begin' for s in scn['steps'])
