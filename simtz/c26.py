"""C26 — RPC requests retry exactly the transient node failures.

World `rpcsim`: no node model; the scenario scripts, per client request, the sequence of
responses the transport returns.  Real code: RpcNode.request/get/post/put/delete,
RpcMultiNode (single node), RpcError.from_response/from_errors, RpcQuery/ShellQuery path
building, requests.Response/.json().  Stub: HTTP.

Oracle: an executable reference of the statement (see `reference`).
"""
import json

from simtz import core
from simtz.runner import rng_for

ID = 'C26'
QUICK_RUNS = 40000
QUICK_BUDGET_S = 60
CHUNK = 250
RULE = (
    'seed -> scenario of 1..5 client requests, each with a script of up to 8 node responses over the alphabet '
    '{200, temporary/permanent/branch/proto-temporary 5xx JSON, prevalidator text 5xx, plain text 5xx, unparsable JSON 5xx, '
    '401, 404, 400/403/409 JSON (incl. "temporary" 4xx), transport exception}; issued through RpcNode.get/post/put/delete/request, '
    'ShellQuery paths or a one-node RpcMultiNode. A run is non-trivial if at least one request was judged by the reference '
    'retry model; distinct = distinct scenario digest. States = distinct per-request response-class sequences.'
)
STATE_MEASURE = 'distinct (response class, status bucket) sequences actually consumed by one request'
COMPONENTS = {
    'real': [
        'pytezos.rpc.node.RpcNode.request/get/post/put/delete',
        'pytezos.rpc.node._is_transient_response',
        'pytezos.rpc.node.RpcError.from_response/from_errors (+ registered error subclasses)',
        'pytezos.rpc.node.RpcMultiNode (one node)',
        'pytezos.rpc.query.RpcQuery / pytezos.rpc.shell.ShellQuery path building',
        'requests.Request.prepare, requests.Response (.json/.text/headers)',
    ],
    'stub': ['HTTP transport (pytezos.rpc.node.requests.request)', 'clock (pytezos.rpc.node.sleep)'],
}
ASSUMPTIONS = [
    'A 5xx error list that contains a protocol error is not transient whatever else it contains (generated in both orders). '
    'Response shapes on which the statement is silent are not generated: mixed temporary+permanent non-protocol lists, proto id together '
    'with the prevalidator marker, non-list JSON error bodies, 200 with a non-JSON body, content-type with a charset suffix.',
    'Exact back-off values are not asserted, only: non-decreasing, each <= 2.0 s, clock advances only through sleep.',
    'A transport exception is not a "transient server error": it must propagate without a resend.',
]
EXPECTED_PROBES = ['debug_logging_on', 'many_transients_on_one_client', 'sixth_attempt_transient', 'retried_then_ok', 'retried_then_error', 'exception_midway', 'four_xx_temporary_not_retried']

TRANSIENT = ('t_json', 'preval_text', 't_json2', 'preval_json')
CLASSES = [
    'ok',
    't_json',
    't_json2',
    'preval_text',
    'preval_json',
    'perm_json',
    'branch_json',
    'proto_temp',
    'mix_temp_proto',
    'mix_proto_temp',
    'text5xx',
    'badjson5xx',
    'empty_list5xx',
    's401',
    's404',
    'c4xx_json',
    'c4xx_temp',
    'ok_marker',
    's404_marker',
    'c4xx_marker',
    'near_marker5xx',
    'nokind5xx',
    'exc',
]
ATTEMPTS = 6
MAX_DELAY_MS = 2000

PATHS = [
    ('node.get', 'chains/main/blocks/head/header', None),
    ('node.get', '/chains/main/mempool/pending_operations', None),
    ('node.get', 'chains/main/blocks/head/context/contracts/tz1aaa/counter', {'a': '1'}),
    ('node.post', 'injection/operation', None),
    ('node.post', 'chains/main/blocks/head/helpers/scripts/run_operation', None),
    ('node.put', 'chains/main/x', None),
    ('node.delete', 'network/connections/p1', None),
    ('node.request', 'chains/main/blocks/head/hash', None),
    ('shell.header', None, None),
    ('shell.pending', None, None),
    ('shell.inject', None, None),
    ('multi.get', 'chains/main/blocks/head/hash', None),
    # less common public entry points: every one of them must go through the same retry contract
    ('shell.monitor', None, None),
    ('shell.mempool_post', None, None),
    ('shell.block_inject', None, None),
    ('shell.invalid_block_delete', None, None),
    ('shell.network_points', None, None),
    ('shell.conn_delete', None, None),
    ('shell.raw_bytes', None, None),
    ('shell.run_operation', None, None),
    ('shell.big_map_value', None, None),
    ('multi.shell.header', None, None),
]


def gen_response(rng, cls, tok):
    # 5xx codes in use: the registered ones and those of proxies/CDNs in front of a node (509, 520-530, 598, 599 are not in the IANA registry)
    st5 = rng.choice([500, 500, 502, 503, 503, 504, 507, 509, 520, 522, 529, 599])
    if cls == 'ok':
        return {'cls': cls, 'status': 200, 'ctype': 'application/json', 'body': json.dumps({'tok': tok})}
    if cls == 't_json':
        errs = [{'kind': 'temporary', 'id': rng.choice(['node.prevalidation.busy', 'node.state.block.unavailable', 'failure']), 'tok': tok}]
        return {'cls': cls, 'status': st5, 'ctype': 'application/json', 'body': json.dumps(errs)}
    if cls == 't_json2':
        errs = [{'kind': 'temporary', 'id': 'node.a', 'tok': tok}, {'kind': 'temporary', 'id': 'node.b.c', 'tok': tok}]
        return {'cls': cls, 'status': st5, 'ctype': 'application/json', 'body': json.dumps(errs)}
    if cls == 'preval_text':
        return {'cls': cls, 'status': st5, 'ctype': rng.choice(['text/plain', None, 'text/html']), 'body': f'Assert_failure src/lib_shell/prevalidator.ml:1918:6 {tok}'}
    if cls == 'preval_json':
        # a prevalidator failure wrapped in the node's JSON error envelope (not marked temporary, not a protocol error)
        errs = [{'kind': rng.choice(['permanent', 'branch']), 'id': 'failure', 'msg': f'Assert_failure src/lib_shell/prevalidator.ml:1918:6 {tok}', 'tok': tok}]
        return {'cls': cls, 'status': st5, 'ctype': 'application/json', 'body': json.dumps(errs)}
    if cls == 'perm_json':
        return {'cls': cls, 'status': st5, 'ctype': 'application/json', 'body': json.dumps([{'kind': 'permanent', 'id': 'node.validator.invalid', 'tok': tok}])}
    if cls == 'branch_json':
        return {'cls': cls, 'status': st5, 'ctype': 'application/json', 'body': json.dumps([{'kind': 'branch', 'id': 'node.mempool.rejected', 'tok': tok}])}
    if cls == 'proto_temp':
        pid = rng.choice(['proto.024-PsD5wVTJ.michelson_v1.script_rejected', 'proto.alpha.contract.counter_in_the_past', 'proto.024-PsD5wVTJ.gas_exhausted.operation'])
        return {'cls': cls, 'status': st5, 'ctype': 'application/json', 'body': json.dumps([{'kind': 'temporary', 'id': pid, 'tok': tok}])}
    if cls in ('mix_temp_proto', 'mix_proto_temp'):
        # a trace that contains a protocol error is a domain failure even if another entry is temporary infrastructure noise
        pe = {'kind': rng.choice(['temporary', 'permanent', 'branch']), 'id': rng.choice(['proto.024-PsD5wVTJ.michelson_v1.runtime_error', 'proto.alpha.contract.balance_too_low']), 'tok': tok}
        te = {'kind': 'temporary', 'id': rng.choice(['node.prevalidation.busy', 'failure']), 'tok': tok}
        errs = [te, pe] if cls == 'mix_temp_proto' else [pe, te]
        return {'cls': cls, 'status': st5, 'ctype': 'application/json', 'body': json.dumps(errs)}
    if cls == 'text5xx':
        return {'cls': cls, 'status': st5, 'ctype': 'text/plain', 'body': f'Internal server error {tok}'}
    if cls == 'empty_list5xx':
        # legal JSON, no error in it: nothing says "temporary", so it is not a transient failure
        return {'cls': cls, 'status': st5, 'ctype': 'application/json', 'body': '[]'}
    if cls == 'badjson5xx':
        return {'cls': cls, 'status': st5, 'ctype': 'application/json', 'body': f'<<not json {tok}'}
    if cls == 's401':
        return {'cls': cls, 'status': 401, 'ctype': 'text/plain', 'body': f'unauthorized {tok}'}
    if cls == 's404':
        return {'cls': cls, 'status': 404, 'ctype': rng.choice(['text/plain', 'application/json']), 'body': '[]' if rng.random() < 0.3 else f'not found {tok}'}
    if cls == 'c4xx_json':
        return {'cls': cls, 'status': rng.choice([400, 403, 409, 410]), 'ctype': 'application/json', 'body': json.dumps([{'kind': 'permanent', 'id': 'rpc.bad_request', 'tok': tok}])}
    if cls == 'c4xx_temp':
        return {'cls': cls, 'status': rng.choice([400, 403, 409, 429]), 'ctype': 'application/json', 'body': json.dumps([{'kind': 'temporary', 'id': 'node.prevalidation.busy', 'tok': tok}])}
    if cls == 'ok_marker':
        # a successful answer that merely *quotes* the prevalidator source file (a stored string, a log excerpt)
        return {'cls': cls, 'status': 200, 'ctype': 'application/json', 'body': json.dumps({'tok': tok, 'note': 'Assert_failure src/lib_shell/prevalidator.ml:1918:6'})}
    if cls == 's404_marker':
        return {'cls': cls, 'status': 404, 'ctype': 'text/plain', 'body': f'no such path src/lib_shell/prevalidator.ml {tok}'}
    if cls == 'c4xx_marker':
        return {'cls': cls, 'status': rng.choice([400, 403, 409]), 'ctype': 'text/plain', 'body': f'bad request: Assert_failure src/lib_shell/prevalidator.ml:1918:6 {tok}'}
    if cls == 'nokind5xx':
        # error objects that do not say what kind they are (made by a proxy, or a trace entry without the field): nothing says "temporary"
        e = {'id': rng.choice(['node.validator.invalid', 'gateway.upstream', 'failure']), 'tok': tok}
        k = rng.choice(['missing', 'empty', 'null'])
        if k == 'empty':
            e['kind'] = ''
        elif k == 'null':
            e['kind'] = None
        return {'cls': cls, 'status': st5, 'ctype': 'application/json', 'body': json.dumps([e])}
    if cls == 'near_marker5xx':
        # texts that resemble the prevalidator marker without containing it
        near = rng.choice(['src/lib_shell/prevalidator/ml_store.ml', 'prevalidator_mlock', 'prevalidator ml-node-2', 'prevalidatorXml', 'prevalidator,ml'])
        return {'cls': cls, 'status': st5, 'ctype': rng.choice(['text/plain', None]), 'body': f'Internal error in {near}: {tok}'}
    if cls == 'exc':
        return {'cls': cls, 'exc': rng.choice(['ConnectionError', 'ReadTimeout'])}
    raise ValueError(cls)


def gen(seed, tier):
    rng = rng_for(seed, 26)
    # swarm: which classes are enabled this run
    enabled = [c for c in CLASSES if rng.random() < 0.7] or ['ok']
    if not any(c in TRANSIENT for c in enabled) and rng.random() < 0.8:
        enabled.append(rng.choice(TRANSIENT))
    nreq = rng.choice([1, 2, 3, 5, 8]) if (tier != 'thorough' and rng.random() < 0.95) else rng.choice([8, 20, 40])
    steps = []
    tokn = 0
    for r in range(nreq):
        via, path, params = rng.choice(PATHS)
        # where the first non-transient response sits: biased to 1, 5, 6, 7 and "never"
        first_nt = rng.choice([1, 1, 2, 3, 4, 5, 5, 6, 6, 6, 7, 7, 9])
        length = rng.choice([6, 7, 8, 8])
        trans = [c for c in enabled if c in TRANSIENT] or list(TRANSIENT[:1])
        nontrans = [c for c in enabled if c not in TRANSIENT] or ['ok']
        script = []
        for k in range(1, length + 1):
            tokn += 1
            tok = f'T{r}.{k}.{tokn}'
            if k < first_nt:
                cls = rng.choice(trans)
            elif k == first_nt:
                cls = rng.choice(nontrans)
            else:
                cls = rng.choice(enabled)
            resp = gen_response(rng, cls, tok)
            if resp.get('status', 0) >= 500 and rng.random() < 0.25:
                # a node (or a proxy in front of it) may attach a Retry-After hint: the statement's delay bounds still hold
                resp['headers'] = {'retry-after': rng.choice(['0', '1', '1', '3', '120', 'Wed, 21 Oct 2026 07:28:00 GMT'])}
            if rng.random() < 0.2:
                resp['latency_ms'] = rng.choice([5, 120, 400, 900, 4000, 25000])  # a slow answer: virtual time passes while waiting for it
            if resp.get('body') is not None and resp.get('status', 0) >= 400 and resp.get('ctype') != 'application/json' and rng.random() < 0.25:
                # a long dump after the message (a backtrace, a gateway page)
                resp['body'] = resp['body'] + ' ' + ('Raised at file "src/lib_shell/foo.ml", line 12, characters 3-40\n' * rng.choice([10, 80]))
            if resp.get('body') is not None and rng.random() < 0.3:
                resp.setdefault('headers', {})['content-length'] = str(len(resp['body'].encode()))
            script.append(resp)
        step = {'via': via, 'path': path, 'params': params, 'script': script}
        if via == 'node.post':
            step['json'] = rng.choice([None, 'deadbeef', {'a': [1, 2]}])
        if rng.random() < 0.15:
            step['fresh_client'] = True
        if rng.random() < 0.3 and via.startswith('node.') and via != 'node.request':
            step['timeout'] = rng.choice([1, 30, 120])
        steps.append(step)
    return {'prop': ID, 'steps': steps, 'debug_logging': rng.random() < 0.15, 'custom_headers': rng.random() < 0.2}


def is_transient(resp):
    return resp.get('cls') in TRANSIENT


def reference(script):
    """Reference of the statement: returns (number of attempts, index of deciding response)."""
    n = 0
    for k, resp in enumerate(script):
        n += 1
        if resp.get('exc'):
            return n, k
        if is_transient(resp) and n < ATTEMPTS:
            continue
        return n, k
    raise core.HarnessError('script shorter than the attempt cap allows')


def execute(scn, want_log=False):
    import logging

    plog = logging.getLogger('pytezos')
    saved = plog.level
    try:
        return _execute(scn, want_log)
    finally:
        plog.setLevel(saved)  # the log level is a scenario knob: never let it leak into the next scenario of the process


def _execute(scn, want_log=False):
    from pytezos.rpc.node import RpcError
    from pytezos.rpc.node import RpcMultiNode
    from pytezos.rpc.node import RpcNode
    from pytezos.rpc.shell import ShellQuery

    import requests

    import logging

    sim = core.Sim()
    cursor = {'script': None, 'pos': 0}
    plog = logging.getLogger('pytezos')
    saved_level = plog.level
    if scn.get('debug_logging'):
        # the documented `loglevel = 'DEBUG'` setting: records go to a null handler, behaviour must not change
        if not any(isinstance(h, logging.NullHandler) for h in plog.handlers):
            plog.addHandler(logging.NullHandler())
        plog.setLevel(logging.DEBUG)

    def handler(req):
        script = cursor['script']
        pos = cursor['pos']
        if pos >= len(script):
            # more attempts than the script is long (> cap + 2): answer like the last one
            cursor['overrun'] = cursor.get('overrun', 0) + 1
            resp = script[-1]
        else:
            resp = script[pos]
        cursor['pos'] = pos + 1
        if resp.get('latency_ms'):
            sim.advance(resp['latency_ms'])
        if resp.get('exc'):
            return core.Reply.error(resp['exc'], 'scripted')
        return core.Reply(resp['status'], resp['body'].encode(), resp['ctype'], headers=resp.get('headers'))

    tr = core.Transport(sim, handler)
    uri = 'http://node0.sim:8732'
    violations = []
    states = set()
    probes = {}
    judged = 0

    def bump(p):
        probes[p] = probes.get(p, 0) + 1

    def violate(kind, sig, **detail):
        violations.append({'kind': kind, 'sig': f'C26/{sig}', 'detail': detail})

    with core.Seams(sim, tr):
        # one client object for the whole scenario: retry state must not leak from one request to the next
        # a client may be created with custom headers (an API key for a gateway): every resend must carry them too
        shared_node = RpcNode(uri, headers={'Authorization': 'Bearer sim-token'}) if scn.get('custom_headers') else RpcNode(uri)
        shared_multi = RpcMultiNode([uri])
        for si, step in enumerate(scn['steps']):
            script = step['script']
            cursor['script'] = script
            cursor['pos'] = 0
            cursor.pop('overrun', None)
            first_log = len(sim.log)
            if step.get('fresh_client'):
                node = RpcMultiNode([uri]) if step['via'].startswith('multi.') else RpcNode(uri)
            else:
                node = shared_multi if step['via'].startswith('multi.') else shared_node
            via = step['via']
            kwargs = {}
            if 'timeout' in step:
                kwargs['timeout'] = step['timeout']
            result = exc = None
            sim.ev('client_request', step=si, via=via)
            try:
                if via in ('node.get', 'multi.get'):
                    result = node.get(step['path'], params=step.get('params'), **kwargs)
                elif via == 'node.post':
                    result = node.post(step['path'], params=step.get('params'), json=step.get('json'), **kwargs)
                elif via == 'node.put':
                    result = node.put(step['path'], params=step.get('params'), **kwargs)
                elif via == 'node.delete':
                    result = node.delete(step['path'], params=step.get('params'), **kwargs)
                elif via == 'node.request':
                    result = node.request('GET', step['path']).json()
                elif via == 'shell.header':
                    result = ShellQuery(node).chains.main.blocks.head.header()
                elif via == 'shell.pending':
                    result = ShellQuery(node).mempool.pending_operations()
                elif via == 'shell.inject':
                    result = ShellQuery(node).injection.operation.post(operation=b'\x01\x02', _async=True)
                elif via == 'shell.monitor':
                    result = next(iter(ShellQuery(node).monitor.heads.main()), None)
                elif via == 'shell.mempool_post':
                    result = ShellQuery(node).mempool.post({'minimal_fees': '100'})
                elif via == 'shell.block_inject':
                    result = ShellQuery(node).injection.block.post({'data': '00', 'operations': []}, force=True)
                elif via == 'shell.invalid_block_delete':
                    result = ShellQuery(node).chains.main.invalid_blocks['BLockGenesisGenesisGenesisGenesisGenesisf79b5d1CoW2'].delete()
                elif via == 'shell.network_points':
                    result = ShellQuery(node).network.points(_filter='running')
                elif via == 'shell.conn_delete':
                    result = ShellQuery(node).network.connections['idabc'].delete(wait=True)
                elif via == 'shell.raw_bytes':
                    result = ShellQuery(node).head.context.raw.bytes(depth=2)
                elif via == 'shell.run_operation':
                    result = ShellQuery(node).head.helpers.scripts.run_operation.post({'operation': {}, 'chain_id': 'x'})
                elif via == 'shell.big_map_value':
                    result = ShellQuery(node).blocks['head'].context.big_maps[17]['exprabc']()
                elif via == 'multi.shell.header':
                    result = ShellQuery(node).head.header()
                else:
                    raise core.HarnessError(via)
            except RpcError as e:
                exc = e
            except requests.exceptions.RequestException as e:
                exc = e
            except (TypeError, ValueError, AttributeError, KeyError, AssertionError) as e:
                exc = e  # not an error of any response: judged below as a wrong outcome
            sim.ev('client_done', step=si, outcome=('ok' if exc is None else type(exc).__name__))

            # ---- judge ----
            judged += 1
            evs = sim.log[first_log:]
            reqs = [e for e in evs if e['k'] == 'req']
            want_n, k = reference(script)
            decider = script[k]
            consumed = tuple((r.get('cls'), r.get('status', 0) // 100) for r in script[: len(reqs)])
            states.add(str(consumed))
            # reach probes
            if want_n == ATTEMPTS and all(is_transient(r) for r in script[: ATTEMPTS]):
                bump('sixth_attempt_transient')
            if want_n > 1 and decider.get('cls') == 'ok':
                bump('retried_then_ok')
            if want_n > 1 and decider.get('cls') not in ('ok', 'exc'):
                bump('retried_then_error')
            if want_n > 1 and decider.get('cls') == 'exc':
                bump('exception_midway')
            if decider.get('cls') == 'c4xx_temp':
                bump('four_xx_temporary_not_retried')

            if len(reqs) != want_n:
                last_cls = script[min(len(reqs), len(script)) - 1].get('cls') if reqs else None
                if len(reqs) > want_n:
                    sig = 'over-retry' if len(reqs) <= ATTEMPTS else 'attempt-cap-exceeded'
                    violate('attempts', f'{sig}:after={decider.get("cls")}', step=si, attempts=len(reqs), expected=want_n,
                            classes=[r.get('cls') for r in script[: max(len(reqs), want_n)]])
                else:
                    violate('attempts', f'under-retry:after={last_cls}', step=si, attempts=len(reqs), expected=want_n,
                            classes=[r.get('cls') for r in script[: max(len(reqs), want_n)]])
                continue
            # identical attempts
            sigs = {(r['m'], r['host'], r['path'], r['q'], json.dumps(r['body']), json.dumps(r.get('to')), json.dumps(r.get('h'))) for r in reqs}
            if len(sigs) != 1:
                violate('resend-differs', 'resend-differs', step=si, attempts=[(r['m'], r['path'], r['q']) for r in reqs])
                continue
            # delays: virtual time between consecutive attempts; transport latency is 0 here so
            # the clock can only have moved through sleep()
            # delay before attempt k+1 = what the client slept between receiving answer k and sending attempt k+1
            # (answers may be slow: the time spent waiting for an answer is not a delay of the client)
            delays = []
            acc = None
            for e in evs:
                if e['k'] == 'req':
                    if acc is not None:
                        delays.append(acc)
                    acc = 0
                elif e['k'] == 'sleep' and acc is not None:
                    acc += e['ms']
            if any(d > MAX_DELAY_MS for d in delays):
                violate('delay', 'delay-above-cap', step=si, delays_ms=delays)
                continue
            if any(b < a for a, b in zip(delays, delays[1:])):
                violate('delay', 'delay-decreasing', step=si, delays_ms=delays)
                continue
            # outcome
            if decider.get('exc'):
                if exc is None or type(exc).__name__ != decider['exc']:
                    violate('outcome', 'exception-not-propagated', step=si, got=repr(exc or result), expected=decider['exc'])
                continue
            tok = None
            try:
                body = json.loads(decider['body'])
                tok = body['tok'] if isinstance(body, dict) else (body[-1]['tok'] if body else None)
            except (ValueError, KeyError, TypeError, IndexError):
                import re as _re

                mt = _re.search(r'T\d+\.\d+\.\d+', decider['body'] or '')
                tok = mt.group(0) if mt and decider['cls'] not in ('empty_list5xx',) else None
            if decider['status'] == 200:
                if exc is not None:
                    violate('outcome', 'raised-on-success', step=si, got=repr(exc), attempts=len(reqs))
                elif not (isinstance(result, dict) and result.get('tok') == tok):
                    violate('outcome', 'wrong-success-returned', step=si, got=repr(result), expected_tok=tok)
                continue
            if exc is None:
                violate('outcome', f'error-swallowed:{decider["cls"]}', step=si, got=repr(result), expected_status=decider['status'])
                continue
            if not isinstance(exc, RpcError):
                violate('outcome', 'wrong-exception-type', step=si, got=repr(exc))
                continue
            text = repr(exc.args)
            if decider['status'] in (401, 404):
                # fixed messages naming the path; attribution to the response is by attempt count
                continue
            if tok and tok not in text:
                violate('outcome', f'wrong-error-raised:{decider["cls"]}', step=si, got=text[:300], expected_tok=tok)

    plog.setLevel(saved_level)
    if scn.get('debug_logging'):
        bump('debug_logging_on')
    if sum(1 for e in sim.log if e['k'] == 'req' and e.get('status', 0) >= 500) >= 8:
        bump('many_transients_on_one_client')
    out = {
        'violations': violations,
        'judged': judged,
        'faults': {'scripted_transient': sum(1 for e in sim.log if e['k'] == 'req' and e.get('status', 0) >= 500),
                   'scripted_exception': sum(1 for e in sim.log if e['k'] == 'req' and e.get('exc'))},
        'probes': probes,
        'states': sorted(states),
        'seqs': sorted(states),
        'virtual_ms': sim.now_ms,
        'digest': sim.digest(),
        'summary': {'requests': len(scn['steps']), 'http_attempts': tr.attempts, 'sleeps': sim.stats['sleep_calls']},
    }
    if want_log:
        out['log'] = sim.log
    return out


def simplify(scn):
    if scn.get('debug_logging'):
        c = json.loads(json.dumps(scn))
        c['debug_logging'] = False
        yield c
    # shorten scripts from the tail; replace classes by simpler ones; drop params/json/timeout; plain via
    for i, st in enumerate(scn['steps']):
        if len(st['script']) > 1:
            c = json.loads(json.dumps(scn))
            c['steps'][i]['script'] = st['script'][:-1]
            yield c
        for key in ('timeout', 'json', 'params'):
            if st.get(key) is not None:
                c = json.loads(json.dumps(scn))
                c['steps'][i][key] = None if key != 'timeout' else None
                if key == 'timeout':
                    c['steps'][i].pop('timeout')
                yield c
        if st['via'] != 'node.get':
            c = json.loads(json.dumps(scn))
            c['steps'][i]['via'] = 'node.get'
            c['steps'][i]['path'] = st['path'] or 'chains/main/blocks/head/header'
            c['steps'][i].pop('json', None)
            yield c


def valid(scn):
    for st in scn['steps']:
        try:
            reference(st['script'])
        except core.HarnessError:
            return False
    return bool(scn['steps'])
