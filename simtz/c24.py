"""C24 — Automatically chosen fees meet the node's default minimal fee.

World `nodesim` via clientsim.World, workload biased to breadth: every manager kind the
client forges and the node decodes, batches 1..16, reveal+operation batches, destinations
with parameters of varying size, simulated consumptions across the whole range, counters and
amounts crossing varint boundaries, all four key kinds.

Oracle, in the simulated prevalidator, on the bytes that arrive:
    1000*sum(fee) >= 100000 + 1000*len(signed bytes) + 100*sum(gas_limit)      (nanotez)
"""
import json

from simtz import clientsim as cs
from simtz.runner import rng_for

ID = 'C24'
QUICK_RUNS = 2000
QUICK_BUDGET_S = 90
CHUNK = 50
CHUNK_TIMEOUT_S = 900
RULE = (
    'seed -> config (key kind tz1..tz4, initial counter across varint sizes, dialect) and 1..3 groups; each group is a batch of 1..16 manager '
    'operations over {transaction to tz/KT with parameters of 0..16000 bytes, reveal, delegation, origination, register_global_constant, transfer_ticket, '
    'smart_rollup_add_messages, smart_rollup_execute_outbox_message}, built with fee=0 and filled by fill()/autofill()/send() with no fee or limit override, '
    'against scenario-chosen simulation results (0..hard_limit/n milligas, paid storage diff, allocation flags, internal results); non-trivial = at '
    'least one injection judged by the fee filter; distinct = scenario digest.'
)
STATE_MEASURE = '(fill path, key kind, batch size bucket, kinds present, gas bucket, size bucket, fee byte-length)'
COMPONENTS = {
    'real': ['pytezos.operation.fees (calculate_fee, default_fee, default_gas_limit, default_storage_limit)', 'OperationGroup.fill/autofill/send/sign/inject/binary_payload',
             'pytezos.operation.result.OperationResult (consumed_gas, paid_storage_size_diff, burned)', 'pytezos.operation.forge / michelson.forge',
             'pytezos.crypto.key.Key.sign (tz1/tz2/tz3; tz4 curve-specific)', 'ExecutionContext', 'RPC stack'],
    'stub': ['HTTP transport', 'the node (SimNode: run_operation serving scenario-chosen results, injection with independent decoder, default fee filter)'],
}
ASSUMPTIONS = [
    'The node\'s default filter is the one quoted in the statement: 100 mutez + 1 mutez/byte + 0.1 mutez/gas unit, rounded up, over the signed operation bytes as received.',
    'tz4: OperationGroup.sign() cannot produce a generic BLS signature (subject of C07/C23); the harness attaches the curve-specific 96-byte signature exactly as '
    'binary_payload() would append it, and the byte count is taken over what arrives.',
    'Constants are the protocol defaults served by the node (hard_gas_limit_per_operation 1040000, hard_storage_limit_per_operation 60000).',
    'Fault injection adds little here (stated in DESIGN.md): most runs are fault-free; transient bursts and latency are sampled in a minority.',
]
EXPECTED_PROBES = ['fee_on_varint_boundary', 'refilled_after_simulation_changed', 'address_only_client', 'batch_ge_20', 'custom_gas_reserve', 'batch_ge_8', 'tz4_judged', 'fee_varint_3_bytes', 'gas_near_hard_limit', 'large_payload', 'reveal_in_batch', 'internal_results']

KINDS = ['transaction', 'transaction_kt', 'contract_call', 'reveal', 'delegation', 'origination', 'register_global_constant', 'transfer_ticket', 'smart_rollup_add_messages',
         'smart_rollup_execute_outbox_message']


def gen_spec(rng, kind):
    s = {'kind': 'transaction' if kind == 'transaction_kt' else kind}
    plen = rng.choice([0, 1, 50, 127, 128, 1000, 16000])
    if kind == 'transaction':
        s['dest'] = rng.choice(cs.OTHERS)
        s['amount'] = rng.choice([0, 1, 127, 128, 16383, 16384, 10**6, 2**40])
    elif kind == 'transaction_kt':
        s['dest'] = cs.KT
        s['amount'] = rng.choice([0, 1, 10**6])
        s['param_len'] = plen
        s['entrypoint'] = rng.choice(['default', 'default', 'do', 'transfer_something_long'])
    elif kind == 'contract_call':
        s['arg'] = rng.choice([0, 1, 63, 64, 2**70])
        s['entrypoint'] = rng.choice(['increment', 'decrement'])
        s['amount'] = rng.choice([0, 0, 10**6])
    elif kind == 'delegation':
        s['delegate'] = rng.choice(['', cs.OTHERS[0]])
    elif kind == 'origination':
        s['storage_len'] = plen
        s['amount'] = rng.choice([0, 10**6])
    elif kind in ('register_global_constant', 'transfer_ticket', 'smart_rollup_execute_outbox_message'):
        s['param_len'] = max(1, plen)
    elif kind == 'smart_rollup_add_messages':
        s['param_len'] = max(1, min(plen, 2000))
        s['nmsg'] = rng.choice([1, 2, 5])
    return s


def gen(seed, tier):
    rng = rng_for(seed, 24)
    r = rng.random()
    key = 'tz1' if r < 0.5 else 'tz2' if r < 0.7 else 'tz3' if r < 0.92 else 'tz4'
    cfg = {
        'key': key,
        'pending_key': rng.choice(['validated', 'validated', 'applied']),
        'counter0': rng.choice([0, 10, 126, 127, 16382, 16383, 2**21 - 2, 2**31, 2**64 + 5]),
        'baker': False,
        'latency_ms': 0,
        'block_delay_s': 8,
        'chain_name': rng.choice(['TEZOS_MAINNET', 'SANDBOXED_TEZOS']),
        'prebake': 1,
        'watch_only': rng.random() < 0.15,
        'filter_rpc': rng.choice(['default', 'default', 'absent', 'lowered', 'lowered', 'raised']),
    }
    if rng.random() < 0.2:
        # a chain whose protocol parameters differ from the stock ones (a sandbox with custom parameters, a future protocol)
        cfg['constants'] = {'hard_gas_limit_per_operation': rng.choice(['520000', '2000000', '4160000', '20000000']), 'hard_storage_limit_per_operation': rng.choice(['60000', '30000'])}
    if rng.random() < 0.2:
        # a live chain: blocks arrive while a client call is in flight (slow link), and the same contract call costs a little more
        # gas at every new head (its storage grows)
        cfg.update(baker=True, block_delay_s=rng.choice([1, 2, 4]), latency_ms=rng.choice([300, 700, 1500]),
                   gas_drift_milligas_per_block=rng.choice([0, 200_000, 1_500_000, 20_000_000]))
    if key != 'tz4' and rng.random() < 0.08:
        # boundary seeking: drive the chosen fee onto the 2-byte/3-byte boundary of the fee field (16383/16384)
        spec = rng.choice([{'kind': 'contract_call', 'arg': 5, 'entrypoint': 'increment'}, {'kind': 'transaction', 'dest': cs.KT, 'amount': 0, 'param_len': rng.choice([0, 50])},
                           {'kind': 'origination', 'storage_len': rng.choice([0, 128])}])
        specs = [spec] if rng.random() < 0.6 else [spec, gen_spec(rng, 'transaction')]
        steps = [{'op': 'new', 'g': 'g0', 'contents': specs, 'via': 'chain', 'sim_plan': [{'milligas': rng.choice([100_000_000, 150_000_000])}, {'milligas': 1_000_000}][: len(specs)]},
                 {'op': 'seek_fee', 'g': 'g0', 'target': rng.choice([16384, 16384, 16383, 16385]), 'offsets': [-20, -10, -3, -1, 0, 1, 3, 7, 10, 20],
                  **({'kw': {'gas_reserve': rng.choice([0, 0, 7, 15, 50])}} if rng.random() < 0.5 else {})}]
        return {'prop': ID, 'cfg': cfg, 'steps': steps}
    enabled = [k for k in KINDS if rng.random() < 0.6] or ['transaction']
    ngroups = rng.choice([1, 1, 2, 3]) if key != 'tz4' else 1
    steps = []
    for gi in range(ngroups):
        n = rng.choice([1, 1, 2, 3, 4, 8, 16, 20, 25, 33, 50, 97, 130]) if key != 'tz4' else rng.choice([1, 1, 2, 3, 5])
        big = n > 16
        specs = []
        if 'reveal' in enabled and rng.random() < 0.4:
            specs.append({'kind': 'reveal'})
        while len(specs) < n:
            k = rng.choice([e for e in enabled if e != 'reveal'] or ['transaction'])
            sp = gen_spec(rng, k)
            if big:
                # a large batch must still fit an operation (32 kB): keep its members small
                for fld in ('param_len', 'storage_len'):
                    if sp.get(fld, 0) > 50:
                        sp[fld] = rng.choice([1, 50])
            specs.append(sp)
        hard = int((cfg.get('constants') or {}).get('hard_gas_limit_per_operation', 1040000)) * 1000 // max(1, len(specs))
        gas_mode = rng.choice(['zero', 'small', 'mid', 'near_limit', 'mixed'])
        plan = []
        for _ in specs:
            if gas_mode == 'zero':
                mg = 0
            elif gas_mode == 'small':
                mg = rng.choice([1, 999, 1000, 1001, 100000, 168_300])
            elif gas_mode == 'mid':
                mg = rng.randint(1, hard // 3)
            elif gas_mode == 'near_limit':
                mg = max(0, hard - rng.choice([0, 1, 999, 1000, 100_000, 101_000]))
            else:
                mg = rng.choice([0, 1500, rng.randint(0, hard)])
            p = {'milligas': mg}
            if rng.random() < 0.3:
                p['paid'] = rng.choice([1, 67, 257, 5000])
            if rng.random() < 0.2:
                p['alloc'] = True
            if rng.random() < 0.2:
                p['internal'] = [{'milligas': rng.choice([0, 999, 2_000_000]), **({'alloc': True} if rng.random() < 0.3 else {}),
                                  **({'paid': 12} if rng.random() < 0.3 else {})} for _ in range(rng.choice([1, 2]))]
            plan.append(p)
        g = f'g{gi}'
        path = rng.choice(['autofill', 'autofill', 'send', 'fill'])
        via = rng.choice(['chain', 'bulk'])
        if len(specs) == 1 and specs[0]['kind'] == 'contract_call':
            via = rng.choice(['chain', 'bulk', 'call', 'call'])
        steps.append({'op': 'new', 'g': g, 'contents': specs, 'via': via, 'sim_plan': plan, **({'preset_signature': True} if (via != 'call' and rng.random() < 0.08) else {})})
        kw = {}
        if path in ('send', 'autofill') and rng.random() < 0.35:
            # limits from simulation plus a caller-chosen safety reserve (the fee must follow the limit actually declared)
            kw['gas_reserve'] = rng.choice([0, 50, 150, 300, 1000, 5000])
            if rng.random() < 0.5:
                kw['burn_reserve'] = rng.choice([0, 10, 500])
        if rng.random() < 0.12:
            kw['ttl'] = rng.choice([1, 5, 60, 120])
        refill = rng.random() < 0.25
        cheap_first = rng.random() < 0.1
        if cheap_first:
            # the same group (or an earlier one on the same client) is first priced with a caller-chosen gas price below the default
            # (documented `minimal_nanotez_per_gas_unit`, e.g. for a sandbox) ...
            if rng.random() < 0.5:
                steps.append({'op': 'fill', 'g': g, 'kw': {'minimal_nanotez_per_gas_unit': rng.choice([0, 1, 50])}})
                if rng.random() < 0.5:
                    steps.append({'op': 'sign', 'g': g})
                    steps.append({'op': 'inject', 'g': g})
                    steps.append({'op': 'new', 'g': g, 'contents': specs, 'via': via, 'sim_plan': plan})  # ... and built afresh for the real network
                else:
                    # ... and then filled again with the defaults before anything is injected
                    steps.append({'op': 'fill', 'g': g, 'from': 'base'})  # (a refill of the *filled* group keeps its fee: that fee is the caller's)
                    steps.append({'op': 'sign', 'g': g})
                    steps.append({'op': 'inject', 'g': g})
                    continue
        if refill:
            # the group is filled/autofilled first (a preview, or the deprecated operation_group flow) and autofilled again later,
            # when the simulation reports a different consumption: the fee must follow the second simulation
            first = rng.choice(['fill', 'autofill'])
            steps.append({'op': first, 'g': g})
            plan2 = [dict(p0, milligas=min(hard, int(p0.get('milligas', 0) * rng.choice([1, 3, 10]) + rng.choice([0, 1_500_000, 40_000_000])))) for p0 in plan]
            second = {'op': 'autofill', 'g': g, 'from': rng.choice(['filled', 'filled', 'base']), 'sim_plan': plan2, **({'kw': kw} if kw else {})}
            steps.append(second)
            steps.append({'op': 'sign', 'g': g})
            steps.append({'op': 'inject', 'g': g})
        elif path == 'send':
            st = {'op': 'send', 'g': g, **({'kw': kw} if kw else {})}
            if rng.random() < 0.15:
                # the node refuses the first injection (what it answers is its business); the caller may simply try again
                st['faults'] = {'inj': {'f': 'reject', 'how': 'perm', 'kind': rng.choice(['permanent', 'branch', 'temporary']),
                                        'err_id': rng.choice(['proto.024-PtTALLiN.gas_exhausted.operation', 'proto.024-PtTALLiN.gas_exhausted.block',
                                                              'proto.024-PtTALLiN.storage_exhausted.operation', 'node.prevalidation.fees_too_low',
                                                              'node.mempool.rejected', 'proto.024-PtTALLiN.contract.balance_too_low'])}}
            steps.append(st)
            if st.get('faults') and rng.random() < 0.6:
                steps.append({'op': 'send', 'g': g, **({'kw': kw} if kw else {})})
        else:
            st = {'op': path, 'g': g, **({'kw': kw} if kw else {})}
            if rng.random() < 0.1:
                st['faults'] = {str(rng.randint(1, 8)): rng.choice([{'f': 'transient', 'n': rng.randint(1, 4), 'status': 503}, {'f': 'latency', 'ms': 900}])}
            steps.append(st)
            steps.append({'op': 'sign', 'g': g})
            steps.append({'op': 'inject', 'g': g})
        if rng.random() < 0.5:
            steps.append({'op': 'bake', 'n': 1})
    return {'prop': ID, 'cfg': cfg, 'steps': steps}


def zlen(v):
    n = 1
    while v >= 128:
        v >>= 7
        n += 1
    return n


def oracle(world, info):
    if info['source'] != world.pkh:
        return None
    g = info.get('group') or {}
    st = info['step'] or {}
    fee, gas, size = info['total_fee'], info['total_gas'], info['raw_len']
    need_nanotez = 100_000 + 1000 * size + 100 * gas
    need_mutez = -(-need_nanotez // 1000)
    n = len(info['contents'])
    kinds = sorted({c['kind'] for c in info['contents']})
    path = g.get('path') or st.get('op')
    world.judged += 1
    world.states.add(f'{path}/{world.key_kind}/n{min(n, 4) if n < 8 else 8}/{"+".join(k[:5] for k in kinds)}/g{len(str(gas))}/s{len(str(size))}/f{zlen(fee)}')
    if n >= 8:
        world.bump(world.probes, 'batch_ge_8')
    if n >= 20:
        world.bump(world.probes, 'batch_ge_20')
    if world.cfg.get('watch_only'):
        world.bump(world.probes, 'address_only_client')
    if g.get('fills', 0) > 1:
        world.bump(world.probes, 'refilled_after_simulation_changed')
    if (g.get('fill_kw') or {}).get('gas_reserve') is not None:
        world.bump(world.probes, 'custom_gas_reserve')
    if world.key_kind == 'tz4':
        world.bump(world.probes, 'tz4_judged')
    if zlen(fee) >= 3:
        world.bump(world.probes, 'fee_varint_3_bytes')
    if 16380 <= fee <= 16388:
        world.bump(world.probes, 'fee_on_varint_boundary')
    if gas >= 1_000_000:
        world.bump(world.probes, 'gas_near_hard_limit')
    if size >= 10_000:
        world.bump(world.probes, 'large_payload')
    if 'reveal' in kinds and n > 1:
        world.bump(world.probes, 'reveal_in_batch')
    if any(p.get('internal') for p in (g.get('sim_plan') or [])):
        world.bump(world.probes, 'internal_results')
    if 1000 * fee >= need_nanotez:
        return None
    mnpg = (g.get('fill_kw') or {}).get('minimal_nanotez_per_gas_unit')
    if (mnpg is not None and mnpg < 100) or g.get('priced_below_default'):
        # the caller priced this very group below the default on purpose (a sandbox): not a fee "chosen by the client"
        world.judged -= 1
        world.bump(world.probes, 'group_priced_below_default_on_purpose')
        return 'fees_too_low'
    nb = '1' if n == 1 else ('2-3' if n <= 3 else ('4-16' if n <= 16 else '17+'))
    reserve = 'default' if (g.get('fill_kw') or {}).get('gas_reserve') is None else 'custom'
    if g.get('fills', 0) > 1:
        path = f'{path}(refill)'
    if world.cfg.get('constants'):
        path = f'{path}[custom-constants]'
    sig = f'C24/fee-too-low:path={path}:key={world.key_kind}{"(address-only)" if world.cfg.get("watch_only") else ""}:batch={nb}:gas_reserve={reserve}'
    world.violations.append({
        'kind': 'fee', 'sig': sig,
        'detail': {'step_index': info['step_index'], 'group': st.get('g'), 'fee': fee, 'required': need_mutez, 'short_by': need_mutez - fee, 'bytes': size,
                   'gas_limit_total': gas, 'contents': n, 'kinds': kinds, 'path': path, 'key': world.key_kind, 'signature_bytes': info['siglen'],
                   'per_content': [(c['kind'], c['fee'], c['gas_limit'], c['size']) for c in info['contents']][:16]},
    })
    return 'fees_too_low'


def execute(scn, want_log=False):
    w = cs.World(scn, oracle)
    w.run()
    return w.result(want_log)


def simplify(scn):
    def cp():
        return json.loads(json.dumps(scn))

    for i, st in enumerate(scn['steps']):
        if st.get('faults'):
            c = cp()
            del c['steps'][i]['faults']
            yield c
        if st.get('kw'):
            for k in list(st['kw']):
                c = cp()
                del c['steps'][i]['kw'][k]
                yield c
        if st['op'] == 'new':
            n = len(st['contents'])
            if n > 1:
                for keep in (st['contents'][:1], st['contents'][: n // 2], st['contents'][1:], st['contents'][: n - 1]):
                    c = cp()
                    c['steps'][i]['contents'] = keep
                    yield c
            for j, spec in enumerate(st['contents']):
                for key in ('param_len', 'storage_len', 'amount'):
                    if spec.get(key):
                        c = cp()
                        c['steps'][i]['contents'][j][key] = 0 if key != 'param_len' or spec['kind'] == 'transaction' else 1
                        yield c
                if spec['kind'] != 'transaction' or spec.get('dest') == cs.KT:
                    c = cp()
                    c['steps'][i]['contents'][j] = {'kind': 'transaction', 'dest': cs.OTHERS[0], 'amount': 0}
                    yield c
            if st.get('sim_plan') and any(p != {'milligas': 100000} for p in st['sim_plan']):
                c = cp()
                c['steps'][i]['sim_plan'] = [{'milligas': 100000}]
                yield c
                c = cp()
                c['steps'][i]['sim_plan'] = [{'milligas': p.get('milligas', 0)} for p in st['sim_plan']]
                yield c
            if st.get('via') == 'bulk':
                c = cp()
                c['steps'][i]['via'] = 'chain'
                yield c
            if st.get('preset_signature'):
                c = cp()
                del c['steps'][i]['preset_signature']
                yield c
    cfg = scn['cfg']
    if cfg.get('constants'):
        c = cp()
        del c['cfg']['constants']
        yield c
    for k, v in {'counter0': 10, 'chain_name': 'TEZOS_MAINNET', 'pending_key': 'validated', 'watch_only': False, 'filter_rpc': 'default'}.items():
        if cfg.get(k) != v:
            c = cp()
            c['cfg'][k] = v
            yield c


def valid(scn):
    return bool(scn['steps'])
