"""World `replsim`: drives Interpreter.execute(cell) cell by cell.

* Fault point: `execute` of every registered instruction class is wrapped (from the
  harness, no repo hook) so that a scenario can say "raise MichelsonRuntimeError on entry
  to / on exit from the j-th instruction execution of this cell".  Exit = the instruction's
  side effects on stack and context have happened.  The interpreter treats it exactly like a
  native failure (wrapped by the enclosing DIP/sequence, rolled back by Interpreter.execute).
* Rendering: public results only (error flag, stdout, executed-instruction tree including
  lazy_diff/result of COMMIT/RUN/BIG_MAP_DIFF, stack items as (type expr, value, repr)),
  with lazy-diff updates sorted by key_hash so hash-seed dependent order cannot matter.
"""
import json

ARM = {'active': False, 'count': 0, 'target': None, 'fired': None, 'installed': False, 'wrapped': 0}


def install_fault_points():
    if ARM['installed']:
        return ARM['wrapped']
    import pytezos.michelson.instructions  # noqa: F401  (registers every instruction class)
    from pytezos.michelson.instructions.base import MichelsonInstruction
    from pytezos.michelson.micheline import Micheline
    from pytezos.michelson.micheline import MichelsonRuntimeError

    n = 0
    seen = set()
    for cls in list(Micheline.classes.values()):
        if not (isinstance(cls, type) and issubclass(cls, MichelsonInstruction)):
            continue
        if id(cls) in seen or 'execute' not in cls.__dict__:
            continue
        seen.add(id(cls))
        raw = cls.__dict__['execute']
        orig = raw.__func__ if isinstance(raw, classmethod) else raw

        def make(orig, prim):
            def execute(klass, stack, stdout, context):
                st = ARM
                if st['active']:
                    st['count'] += 1
                    me = st['count']
                    if st['target'] == (me, 'entry'):
                        st['fired'] = (me, 'entry', prim)
                        raise MichelsonRuntimeError(prim, f'injected fault on entry (#{me})')
                    res = orig(klass, stack, stdout, context)
                    if st['target'] == (me, 'exit'):
                        st['fired'] = (me, 'exit', prim)
                        raise MichelsonRuntimeError(prim, f'injected fault on exit (#{me})')
                    return res
                return orig(klass, stack, stdout, context)

            return execute

        setattr(cls, 'execute', classmethod(make(orig, cls.prim)))
        n += 1
    ARM['installed'] = True
    ARM['wrapped'] = n
    return n


def run_cell(interp, code, fault=None):
    """Execute one cell; `fault` = None | {'ordinal': j, 'when': 'entry'|'exit'}.
    Returns (InterpreterResult, executed instruction count, fired)."""
    ARM['active'] = True
    ARM['count'] = 0
    ARM['fired'] = None
    ARM['target'] = (fault['ordinal'], fault['when']) if fault else None
    try:
        res = interp.execute(code)
    except Exception as e:  # noqa: BLE001
        # an exception escaped Interpreter.execute (e.g. while formatting a node error): for the session this is a failed
        # cell like any other, and the property still applies to it
        res = EscapedFailure(e)
    finally:
        ARM['active'] = False
        ARM['target'] = None
    return res, ARM['count'], ARM['fired']


class EscapedFailure:
    """Stands for the result of a cell whose failure escaped Interpreter.execute as a raw exception."""

    def __init__(self, exc):
        self.error = exc
        self.stdout = [f'escaped {type(exc).__name__}']
        self.stack = None
        self.instructions = None


# ---------------------------------------------------------------------------------
# rendering of public results
# ---------------------------------------------------------------------------------


def canon_lazy_diff(ld):
    if ld is None:
        return None
    out = []
    for entry in ld:
        e = json.loads(json.dumps(entry, default=str))
        d = e.get('diff')
        if isinstance(d, dict) and isinstance(d.get('updates'), list):
            d['updates'] = sorted(d['updates'], key=lambda u: (u.get('key_hash', ''), json.dumps(u, sort_keys=True)))
        out.append(e)
    return out


def render_item(x):
    from pytezos.michelson.types.base import MichelsonType

    if not isinstance(x, MichelsonType):
        return {'repr': repr(x)}
    out = {'repr': repr(x)}
    try:
        out['type'] = type(x).as_micheline_expr()
    except Exception as e:  # noqa: BLE001
        out['type'] = 'ERR:' + type(e).__name__
    try:
        out['value'] = x.to_micheline_value()
    except Exception as e:  # noqa: BLE001
        out['value'] = 'ERR:' + type(e).__name__
    return json.loads(json.dumps(out, default=str, sort_keys=True))


def render_instr(it, depth=0):
    from pytezos.michelson.micheline import Micheline
    from pytezos.michelson.types.base import MichelsonType

    if it is None:
        return None
    if isinstance(it, MichelsonType):
        return render_item(it)
    if isinstance(it, (list, tuple)):
        return [render_instr(x, depth + 1) for x in it]
    if not isinstance(it, Micheline):
        return repr(it)
    node = {'cls': type(it).__name__}
    if depth > 40:
        return node
    for k in sorted(vars(it)):
        v = vars(it)[k]
        if k == 'lazy_diff':
            node[k] = canon_lazy_diff(v)
        elif isinstance(v, (Micheline, MichelsonType, list, tuple)):
            node[k] = render_instr(v, depth + 1)
        elif isinstance(v, (int, str, bool)) or v is None:
            node[k] = v
        else:
            node[k] = repr(v)
    return node


def render_result(res):
    err = None
    if isinstance(res, EscapedFailure):
        err = f'escaped:{type(res.error).__name__}'
    elif res.error is not None:
        try:
            err = res.error.format_stdout()
        except Exception:  # noqa: BLE001
            err = repr(res.error)
    return {
        'error': err,
        'stdout': list(res.stdout),
        'stack': [render_item(x) for x in res.stack.items] if res.stack is not None else None,
        'instr': render_instr(res.instructions),
    }


def first_diff(a, b, path=''):
    """Smallest path at which two rendered structures differ (for the violation detail)."""
    if type(a) is not type(b):
        return path, a, b
    if isinstance(a, dict):
        for k in sorted(set(a) | set(b)):
            if k not in a or k not in b:
                return f'{path}/{k}', a.get(k), b.get(k)
            d = first_diff(a[k], b[k], f'{path}/{k}')
            if d:
                return d
        return None
    if isinstance(a, list):
        if len(a) != len(b):
            return f'{path}/len', len(a), len(b)
        for i, (x, y) in enumerate(zip(a, b)):
            d = first_diff(x, y, f'{path}/{i}')
            if d:
                return d
        return None
    return None if a == b else (path, a, b)
