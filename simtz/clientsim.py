"""Shared world for C24 and C25: the real pytezos client (PyTezosClient, OperationGroup,
ExecutionContext, fees, forging, Key, ShellQuery/RpcNode, wait_blocks/wait_operations)
driven step by step against SimNode through the transport seam.

A scenario is {'cfg': {...}, 'steps': [...]}; execution is a pure function of it.
Steps (client): new, fill, autofill, sign, inject, send;  (node/env): bake, sleep, noise.
Client steps may carry 'faults': {"<k>": directive} applying to the k-th HTTP attempt
issued during that step (see core.Transport).
"""
import json

from simtz import core
from simtz import nodesim
from simtz import opcodec as oc

KEYS = {
    'tz1': ('edsk4WRQzYNnp8D8PHTjog9yFLZRCKc26VT7KCUcQrL3pF7sPve3Sy', 'edpkuKfUhDJe7r9drgmtSayjTSWibCFfSDmgV8H7HgMNqwKiw5Y3bA', 'tz1QBxCwcEEcvz5H5U1WkRvuGCVBFgiQGBbe'),
    'tz2': ('spsk3K3rFBiLP5Ke2c1usY4VmDcuRJU5yKRsYRLekdgDJ28TPuZ8qP', 'sppk7d8qfTQ6TeVRPXy8zh9241wePbLsVqJMvimYX26Sazary13vT2R', 'tz2BzLwiqRPz3nouEUdsywHpKJy9TsZWeEh3'),
    'tz3': ('p2sk4EdxLrZGgBxmZWGkrAJVaZNqpXZLMTahsX2gZD4kuYz1f6n4gu', 'p2pk67PQrrdict3UyNAbTfJU7rwYvRPCpVa7n9gXUMZwLRzjWo8nh5p', 'tz3TW8qv2nGn3QnRU7TiJtu8HrZoArWJdXte'),
    'tz4': ('BLsk2DidLEXYjL5PvteqHgsve5LoJfZVqTQyKU9XsyXdEpoAh6k8D8', 'BLpk1xipaaiDR15Nj7micbYiWvCP14zrVCHSbhpQSduoMGkdazSTFDkPDMtbupvBAqL5YR1Zj3ep', 'tz4KF3puzfXDTXe6e2znufGJUYa639DKVBdD'),
}
OTHERS = ['tz1iDKWtiNDiUJYuPv557Ag547zfS1MhZ17g', 'tz2PYyg1yu8EgS6vDMwTu8ZrsxDEkgFwi8VJ', 'tz3U5FFmcM57YVo1eb7W9rkS3NbDWeE1av6X']
KT = 'KT1BEqzn5Wx8uJrZNvuS9DVHmLvG9td3fDLi'
SR1 = 'sr1JZsZT5u27MUQXeTh1aHqZBo8NvyxRKnyv'
SRC1 = 'src13FVgJq88nGcd3xmjtPr4j3wq9VJGkGZ3LaVKZ3PUT8dKbByviq'
URI = 'http://node0.sim:8732'

UNIT_CODE = [
    {'prim': 'parameter', 'args': [{'prim': 'unit'}]},
    {'prim': 'storage', 'args': [{'prim': 'string'}]},
    {'prim': 'code', 'args': [[{'prim': 'CDR'}, {'prim': 'NIL', 'args': [{'prim': 'operation'}]}, {'prim': 'PAIR'}]]},
]


COUNTER_CODE = [
    {'prim': 'parameter', 'args': [{'prim': 'or', 'args': [{'prim': 'int', 'annots': ['%decrement']}, {'prim': 'int', 'annots': ['%increment']}]}]},
    {'prim': 'storage', 'args': [{'prim': 'int'}]},
    {'prim': 'code', 'args': [[{'prim': 'UNPAIR'}, {'prim': 'IF_LEFT', 'args': [[{'prim': 'SWAP'}, {'prim': 'SUB'}], [{'prim': 'ADD'}]]},
                               {'prim': 'NIL', 'args': [{'prim': 'operation'}]}, {'prim': 'PAIR'}]]},
]
KT_COUNTER = 'KT1Ha4yFVeyzw6KRAdkzq6TxDHB97KG4pZe8'


def make_content(client_or_group, spec, client=None):
    """Append one content, described by `spec`, through the public ContentMixin API."""
    k = spec['kind']
    g = client_or_group
    if k == 'contract_call':
        # the high-level path: ContractInterface fetched from the node -> ContractCall -> transaction
        ci = (client or g).contract(KT_COUNTER)
        if spec.get('pinned_block'):
            # the documented way to inspect a contract at a past block; calls built from it are still sent now
            ci = ci.using(block_id=f'head~{int(spec["pinned_block"])}')
        call = getattr(ci, spec.get('entrypoint', 'increment'))(spec.get('arg', 1))
        if spec.get('amount'):
            call = call.with_amount(spec['amount'])
        if spec.get('raw_call'):
            return call  # ContractCall object (for client.bulk / call.send)
        opg = call.as_transaction()
        if client is None or g is client:
            return opg
        return g.operation(opg.contents[0])
    if k == 'transaction':
        kw = {'destination': spec.get('dest', OTHERS[0]), 'amount': spec.get('amount', 0)}
        if spec.get('param_len') is not None:
            kw['parameters'] = {'entrypoint': spec.get('entrypoint', 'default'), 'value': {'string': 'p' * spec['param_len']}}
        return g.transaction(**kw)
    if k == 'reveal':
        return g.reveal()
    if k == 'delegation':
        return g.delegation(delegate=spec.get('delegate', ''))
    if k == 'origination':
        return g.origination(script={'code': UNIT_CODE, 'storage': {'string': 's' * spec.get('storage_len', 0)}}, balance=spec.get('amount', 0))
    if k == 'register_global_constant':
        return g.register_global_constant(value={'string': 'c' * spec.get('param_len', 1)})
    if k == 'transfer_ticket':
        return g.transfer_ticket(ticket_contents={'string': 't' * spec.get('param_len', 1)}, ticket_ty={'prim': 'string'}, ticket_ticketer=KT,
                                 ticket_amount=spec.get('amount', 1) or 1, destination=spec.get('dest', KT), entrypoint='default')
    if k == 'smart_rollup_add_messages':
        return g.smart_rollup_add_messages(message=[b'm' * spec.get('param_len', 1)] * spec.get('nmsg', 1))
    if k == 'smart_rollup_execute_outbox_message':
        return g.smart_rollup_execute_outbox_message(rollup=SR1, cemented_commitment=SRC1, output_proof=b'o' * spec.get('param_len', 1))
    raise core.HarnessError(k)


class World:
    def __init__(self, scn, oracle):
        from pytezos.client import PyTezosClient
        from pytezos.context.impl import ExecutionContext
        from pytezos.crypto.key import Key
        from pytezos.rpc.node import RpcNode
        from pytezos.rpc.shell import ShellQuery

        cfg = scn['cfg']
        self.scn = scn
        self.cfg = cfg
        self.sim = core.Sim()
        self.node = nodesim.SimNode(self.sim, {
            'pending_key': cfg.get('pending_key', 'validated'), 'pending_pairs': cfg.get('pending_pairs', False),
            'block_delay_s': cfg.get('block_delay_s', 8), 'chain_name': cfg.get('chain_name', 'TEZOS_MAINNET'),
            'bake_jitter_ms': cfg.get('bake_jitter_ms', []), 'filter_rpc': cfg.get('filter_rpc', 'default'), 'constants': cfg.get('constants'),
            'gas_drift_milligas_per_block': cfg.get('gas_drift_milligas_per_block', 0),
        })
        sk, pk, pkh = KEYS[cfg.get('key', 'tz1')]
        self.pkh = pkh
        self.key_kind = cfg.get('key', 'tz1')
        verify = self.key_kind != 'tz4' or cfg.get('verify_bls', False)
        self.node.add_account(pkh, counter=cfg.get('counter0', 10), key=pk if verify else None)
        if cfg.get('key_revealed'):
            self.node.accounts[pkh]['revealed'] = True  # a reveal of this key is refused (previously_revealed_key)
        for o in OTHERS:
            self.node.add_account(o, counter=5)
        self.node.contracts[KT_COUNTER] = {'code': COUNTER_CODE, 'storage': {'int': '0'}}
        self.node.bake(cfg.get('prebake', 2))
        self.tr = core.Transport(self.sim, self.node.handle, latency_ms=cfg.get('latency_ms', 0), max_requests=cfg.get('max_requests', 4000))
        self.step_faults = {}
        self.step_first = 0
        self.tr.fault_for = self._fault_for
        self.key = Key.from_encoded_key(sk)
        client_key = self.key
        if cfg.get('watch_only'):
            # address-only client (`using(key='tz...')`): fees/counters are chosen without the secret key, the signature is made elsewhere
            from pytezos.context.mixin import KeyHash

            client_key = KeyHash(pkh)
        self.external_sign = bool(cfg.get('watch_only')) or self.key_kind == 'tz4'
        ctx = ExecutionContext(shell=ShellQuery(RpcNode(URI)), key=client_key)
        self.client = PyTezosClient(context=ctx)
        self.groups = {}
        self.oracle = oracle
        self.node.on_inject = self._on_inject
        self.violations = []
        self.info = {}
        self.probes = {}
        self.states = set()
        self.judged = 0
        self.cur_step = None
        self.cur_index = -1
        self.last_fault = 'none'
        self.last_kind = 'start'
        self.in_client_call = False

    def bump(self, d, k, n=1):
        d[k] = d.get(k, 0) + n

    # faults are addressed by the ordinal of the request within the step, or by what the request is (one-shot: the first match)
    MATCH = {'inj': '/injection/operation', 'pend': '/chains/main/mempool/pending_operations', 'run': '/helpers/scripts/run_operation',
             'ctr': '/context/contracts/', 'hdr': '/header'}

    def _fault_for(self, req):
        rel = req['i'] - self.step_first
        d = self.step_faults.get(str(rel))
        if d is None:
            for key, frag in self.MATCH.items():
                if key in self.step_faults and frag in req['path']:
                    d = self.step_faults.pop(key)
                    break
        if d:
            self.last_fault = d['f']
        return d

    def _on_inject(self, node, info):
        info['step_index'] = self.cur_index
        info['step'] = self.cur_step
        g = self.groups.get(self.cur_step.get('g')) if self.cur_step else None
        info['group'] = g
        return self.oracle(self, info)

    # -------------------------------------------------------------------- steps
    def run(self):
        import requests

        from pytezos.rpc.node import RpcError

        sim = self.sim
        with core.Seams(sim, self.tr):
            if self.cfg.get('baker'):
                self.node.start_baker()
            for idx, st in enumerate(self.scn['steps']):
                self.cur_step = st
                self.cur_index = idx
                self.step_faults = dict(st.get('faults') or {})
                self.step_first = self.tr.attempts
                op = st['op']
                sim.ev('step', i=idx, op=op, g=st.get('g'))
                outcome = 'ok'
                self.in_client_call = op in ('fill', 'autofill', 'sign', 'inject', 'send', 'seek_fee')
                try:
                    self._do(st)
                except core.SimCapExceeded as e:
                    outcome = 'cap:' + str(e)
                    self.bump(self.info, 'run_cap_exceeded')
                    sim.ev('step_done', i=idx, outcome=outcome)
                    break
                except RpcError as e:
                    outcome = 'RpcError:' + str(e.args)[:160]
                except requests.exceptions.RequestException as e:
                    outcome = type(e).__name__
                except (ValueError, KeyError, AssertionError, StopIteration, TimeoutError, NotImplementedError) as e:
                    outcome = type(e).__name__ + ':' + str(e)[:160]
                self.in_client_call = False
                sim.ev('step_done', i=idx, outcome=outcome)
                if outcome != 'ok' and op in ('fill', 'autofill', 'sign', 'inject', 'send', 'new'):
                    self.bump(self.info, f'client_step_failed:{op}')
                self.last_kind = op
            self.node.baker_on = False

    def _do(self, st):
        op = st['op']
        node = self.node
        if op == 'bake':
            node.bake(st.get('n', 1))
            return
        if op == 'sleep':
            self.sim.advance(int(st['s'] * 1000))
            return
        if op == 'noise' and st.get('own_foreign') and st.get('after_ms'):
            # the other wallet's operation reaches the node a little later: possibly while a later client call is in flight
            def arrive(st=st):
                node.add_foreign_kind_pending(self.pkh, kind=st.get('kind', 'increase_paid_storage'), n=st.get('n', 1))
                self.bump(self.info, 'own_pending_operation_of_foreign_kind')
                if self.in_client_call:
                    self.bump(self.probes, 'own_operation_arrived_during_client_call')

            self.sim.after(int(st['after_ms']), arrive, 'own_foreign_arrival')
            return
        if op == 'noise' and st.get('own_foreign'):
            node.add_foreign_kind_pending(self.pkh, kind=st.get('kind', 'increase_paid_storage'), n=st.get('n', 1))
            self.bump(self.info, 'own_pending_operation_of_foreign_kind')
            return
        if op == 'noise' and st.get('own_stale'):
            node.add_stale_own_op(self.pkh, where=st.get('where', 'outdated'), n=st.get('n', 1))
            self.bump(self.info, 'own_stale_operation_listed')
            return
        if op == 'noise':
            node.add_noise_op(OTHERS[st.get('acct', 0) % len(OTHERS)], n=st.get('n', 1), where=st.get('where', 'validated'))
            return
        name = st['g']
        if op == 'new':
            specs = st['contents']
            grp = None
            if st.get('via') == 'bulk':
                parts = [make_content(self.client, dict(s, raw_call=True) if s['kind'] == 'contract_call' else s, client=self.client) for s in specs]
                if st.get('stale_member'):
                    # one member is rebuilt from contents stored earlier (already filled: counters, fees and limits set, no branch)
                    donor = next((gg for gg in self.groups.values() if gg.get('filled') is not None), None)
                    if donor is not None:
                        stored = json.loads(json.dumps(donor['filled'].contents))
                        parts.append(self.client.operation_group(contents=stored))
                        self.bump(self.info, 'bulk_member_rebuilt_from_stored_contents')
                grp = self.client.bulk(*parts)
            else:
                for s in specs:
                    grp = make_content(self.client if grp is None else grp, s, client=self.client)
            if st.get('preset_signature') and grp is not None and hasattr(grp, 'contents'):
                # a group rebuilt from a stored payload still carries the signature it had (of another key kind)
                grp = self.client.operation_group(contents=list(grp.contents), signature=oc.b58enc('sig', b'\x07' * 64))
            call = None
            if st.get('via') == 'call' and len(specs) == 1 and specs[0]['kind'] == 'contract_call':
                # keep the ContractCall itself: `send` then goes through ContractCall.send()
                call = make_content(self.client, dict(specs[0], raw_call=True), client=self.client)
            self.groups[name] = {'call': call, 'base': grp, 'filled': None, 'signed': None, 'path': None, 'fills': 0, 'specs': specs, 'sim_plan': st.get('sim_plan'),
                                 'fee_by_client': True}
            return
        g = self.groups.get(name)
        if g is None:
            return  # the step that created the group was removed by the shrinker
        if st.get('sim_plan') is not None:
            g['sim_plan'] = st['sim_plan']  # the chain moved on: this simulation answers differently from the previous one
        if g.get('sim_plan') is not None:
            node.sim_plan = g['sim_plan']
        if op in ('fill', 'autofill', 'send'):
            g['fill_kw'] = st.get('kw') or {}
        kw_now = dict(st.get('kw') or {})
        if kw_now.get('counter') == 'head+1':
            # the documented manual handling: the caller reads the account's counter on the node itself and passes the next one
            kw_now['counter'] = int(self.client.shell.contracts[self.pkh]()['counter']) + 1
            self.bump(self.probes, 'caller_supplied_counter')
        if op == 'fill':
            src = g['filled'] if (st.get('from') == 'filled' and g['filled'] is not None) else g['base']
            g['fills'] += 1
            g['filled'] = src.fill(**kw_now)
            g['path'] = 'fill'
            g['signed'] = None
        elif op == 'autofill':
            src = g['filled'] if (st.get('from') == 'filled' and g['filled'] is not None) else g['base']
            g['fills'] += 1
            if st.get('from') == 'filled' and g['filled'] is not None:
                g['refilled_from_filled'] = True
            g['filled'] = src.autofill(**kw_now)
            g['path'] = 'autofill'
            g['signed'] = None
        elif op == 'seek_fee':
            # Boundary seeking (deterministic, adaptive): steer the simulated gas until the fee the client chooses sits on a
            # varint length boundary of the fee field, then inject a handful of groups around that point.
            plan = [dict(p) for p in (g.get('sim_plan') or [{'milligas': 100000}])]
            target = int(st.get('target', 16384))
            fee = None
            for _ in range(10):
                node.sim_plan = plan
                filled = g['base'].autofill(**(st.get('kw') or {}))
                fee = sum(int(c.get('fee', 0)) for c in filled.contents)
                delta = target - fee
                if abs(delta) <= 1:
                    break
                plan[0]['milligas'] = max(0, plan[0].get('milligas', 0) + delta * 10_000)
            self.bump(self.info, 'seek_fee_converged' if fee is not None and abs(target - fee) <= 1 else 'seek_fee_not_converged')
            base_mg = plan[0].get('milligas', 0)
            for off in st.get('offsets', [-20, -10, 0, 10, 20]):
                plan[0]['milligas'] = max(0, base_mg + off * 1000)
                node.sim_plan = plan
                g['fills'] += 1
                g['path'] = 'autofill'
                g['fill_kw'] = st.get('kw') or {}
                filled = g['base'].autofill(**(st.get('kw') or {}))
                g['filled'] = filled
                self._sign(filled).inject()
        elif op == 'sign':
            if g['filled'] is None:
                return
            g['signed'] = self._sign(g['filled'])
        elif op == 'inject':
            if g['signed'] is None:
                return
            minconf = st.get('minconf', 0) if self.cfg.get('baker') else 0
            g['signed'].inject(min_confirmations=minconf, prevalidate=st.get('prevalidate', True), num_blocks_wait=st.get('wait', 5))
            g['injected'] = True
        elif op == 'send':
            minconf = st.get('minconf', 0) if self.cfg.get('baker') else 0
            g['fills'] += 1
            g['path'] = 'send'
            if self.external_sign:
                # OperationGroup.sign() cannot produce a generic BLS signature (C07/C23's subject), and an address-only
                # client cannot sign at all: mirror send() with the harness attaching the signature
                filled = g['base'].autofill(**(st.get('kw') or {}))
                g['filled'] = filled
                signed = self._sign(filled)
                g['signed'] = signed
                signed.inject(min_confirmations=minconf)
            elif g.get('call') is not None:
                self.bump(self.info, 'sent_through_ContractCall')
                g['call'].send(min_confirmations=minconf, **(st.get('kw') or {}))
            else:
                g['base'].send(min_confirmations=minconf, **(st.get('kw') or {}))
            g['injected'] = True
        else:
            raise core.HarnessError(op)

    def _sign(self, opg):
        if not self.external_sign:
            return opg.sign()
        msg = b'\x03' + bytes.fromhex(opg.forge())
        self.bump(self.info, 'tz4_signature_attached_by_harness' if self.key_kind == 'tz4' else 'external_signature_for_address_only_client')
        return opg._spawn(signature=self.key.sign(msg, generic=self.key_kind != 'tz4'))

    def result(self, want_log):
        sim = self.sim
        out = {
            'violations': self.violations,
            'judged': self.judged,
            'faults': {k[6:]: v for k, v in sim.stats.items() if k.startswith('fault:')},
            'probes': self.probes,
            'info': self.info,
            'states': sorted(self.states),
            'seqs': [],
            'virtual_ms': sim.now_ms,
            'unmodelled': dict(self.node.unmodelled),
            'digest': sim.digest(),
            'summary': {
                'steps': len(self.scn['steps']), 'http_attempts': self.tr.attempts, 'blocks': self.node.head['level'],
                'injections_received': sim.stats.get('injections_received', 0), 'injections_accepted': sim.stats.get('injections_accepted', 0),
                'sig_checked': sim.stats.get('sig_checked', 0), 'sig_invalid': sim.stats.get('sig_invalid', 0),
            },
        }
        for k in ('sig_invalid', 'injection_undecodable', 'injection_unknown_branch', 'injection_duplicate', 'run_operation_counter_failed',
                  'injection_bad_counter', 'injection_fees_too_low', 'injections_unprocessed'):
            if sim.stats.get(k):
                out['info'][k] = sim.stats[k]
        if want_log:
            out['log'] = sim.log
        return out


def strip_faults(scn):
    c = json.loads(json.dumps(scn))
    for st in c['steps']:
        st.pop('faults', None)
    return c
