"""C29 — Chain-history search reports exactly the state changes.

World `nodesim`: SimNode bakes a chain of up to a few hundred levels; a tracked value
(account counter, ballots, proposal rolls, existence of an originated contract) changes at
seeded levels to a value never seen before.  The search helpers run with `get` bound to
real queries through the RPC stack (transient faults below the retry cap, latency, chain
growing while the search runs).  Oracle: the node's recorded per-level history.
"""
import copy
import json

from simtz import core
from simtz import nodesim
from simtz import opcodec as oc
from simtz.runner import rng_for

ID = 'C29'
QUICK_RUNS = 20000
QUICK_BUDGET_S = 60
CHUNK = 25
RULE = (
    'seed -> chain of H<=120 (quick) / 400 (thorough) levels with 0..6 change points (biased to last+1, head, adjacent levels and sampling '
    'boundaries), a search range (last, head], a sampling step in 1..2*range, an entry point in {find_state_changes, find_state_change, '
    'walk_state_change_interval, BlockSliceQuery.find_ballots/find_upvotes/find_origination} and a fault plan (transient bursts below the retry '
    'cap, latency, baker running during the search). Non-trivial = the search was judged against the recorded history and the range contains at '
    'least one change or at least 3 levels; distinct = scenario digest.'
)
STATE_MEASURE = '(entry point, #changes bucket, change at last+1?, change at head?, step vs range class, adjacent changes?)'
COMPONENTS = {
    'real': ['pytezos.rpc.search.find_state_changes/find_state_change/find_state_change_intervals/walk_state_change_interval',
             'BlockSliceQuery.get_range/find_ballots/find_upvotes/find_origination', 'OperationListListQuery.find_ballots/find_upvotes/find_origination',
             'ProposalQuery/ProposalsQuery', 'RpcQuery/ShellQuery/BlocksQuery path building', 'RpcNode.request retry loop'],
    'stub': ['HTTP transport', 'clock', 'the node (SimNode: chain, per-level context snapshots, votes endpoints)'],
}
ASSUMPTIONS = [
    '"the range" is (last, head]: a change is a level l in last+1..head with value(l) != value(l-1); the value at `last` itself is the start value.',
    'Histories never return to an earlier value (generated so).',
    'find_state_change is only called on ranges that contain at least one change (the statement defines no answer otherwise).',
    'API helpers: vote/origination operations are never placed at the first or last level of the slice, where the helper\'s own range convention '
    '(head-1, "ballots are empty at the last block") makes the expected answer ambiguous.',
    'A definitive request failure (retry budget exhausted, permanent 5xx, connection error) during a search may abort it with an error; '
    'only a *returned* result is judged, and it must be exact. Not injected for find_origination, whose getter maps any RpcError to "absent" by design.',
    'BlockSliceQuery.find_proposal_injection is excluded: it calls a non-existent OperationListListQuery.find_votes after the search returns '
    '(a defect outside this statement).',
]
EXPECTED_PROBES = ['empty_or_inverted_slice', 'more_than_512_sampling_points', 'tallies_reset_at_stop_block', 'voting_power_sent_as_string', 'two_searches_interleaved', 'coarse_equality', 'chain_extended_between_two_searches', 'none_valued_history', 'search_aborted_by_definitive_failure', 'slice_reused_for_second_search', 'change_at_last_plus_1', 'change_at_head', 'adjacent_changes', 'step_exceeds_range', 'no_change_in_range', 'fault_during_search',
                   'chain_grew_during_search']

PKH = 'tz1VSUr8wwNhLAzempoch5d6hLRiTh8Cjcjb'
VOTERS = ['tz1Ke2h7sDdakHJQh8WX4Z372du1KChsksyU', 'tz1aSkwEot3L2kmUvcoxzjMomb9mvBNuzFK6', 'tz1gjaF81ZRRvdzjobyfVNsAeSC6PScjfQwN', 'tz1faswCTDciRzE4oJ9jn2Vm2dvjeyA9fUzU']
PROP_A = 'PsD5wVTJc3Bv7U9yo9oNgnbQm8S8iTBLxzX5JHVNtSLRC6xdLRR'
PROP_B = 'PtSeouLouXkxhg39oWzjxDWaCydNfR3RxCUrNe4Q9Ro8BTehcbh'
KINDS = ['changes:counter', 'changes:ballots', 'changes:proposals', 'changes:kt', 'changes:info', 'single:counter', 'walk:counter', 'api:ballots', 'api:upvotes', 'api:origination']


def gen(seed, tier):
    rng = rng_for(seed, 29)
    hmax = 400 if tier == 'thorough' else 120
    H = rng.choice([4, 8, 20, 60, hmax // 2, hmax])
    kind = rng.choice(KINDS)
    head = rng.randint(max(3, H // 2), max(3, H - 1))
    last = rng.randint(1, max(1, head - 2))
    if kind.startswith('api:'):
        head = max(head, last + 3)
    H = max(H, head + 1)
    if kind == 'api:origination':
        last = 0
    long_range = kind.startswith('changes:') and kind != 'changes:kt' and rng.random() < (0.05 if tier == 'thorough' else 0.015)
    if long_range:
        # many hundreds of levels sampled densely: more sampling points than any fixed-size buffer a search might use
        H = rng.randint(600, 1400)
        head = rng.randint(H - 40, H - 1)
        last = rng.randint(1, 60)
    span = head - last
    step = rng.choice([1, 2, 3, max(1, span // 3), max(1, span // 2), max(1, span - 1), span, span + 1, 2 * span, 60, rng.randint(1, max(1, 2 * span))])
    if long_range:
        step = rng.choice([1, 1, 2])
    nchg = rng.choice([0, 1, 1, 2, 3, 4, 6])
    if kind in ('single:counter', 'api:origination'):
        nchg = max(nchg, 1)
    lo, hi = last + 1, head
    cands = set()
    for _ in range(nchg):
        r = rng.random()
        if r < 0.2:
            lvl = lo
        elif r < 0.4:
            lvl = hi
        elif r < 0.55 and cands:
            lvl = min(hi, max(lo, rng.choice(sorted(cands)) + rng.choice([-1, 1])))
        elif r < 0.7:
            # a sampling boundary: head - k*step
            k = rng.randint(0, max(0, span // max(step, 1)))
            lvl = min(hi, max(lo, head - k * step + rng.choice([0, 0, 1, -1])))
        else:
            lvl = rng.randint(lo, hi)
        cands.add(lvl)
    changes = sorted(cands)
    if kind == 'api:origination':
        changes = changes[:1]
    # changes outside the range must not be reported
    outside = sorted({rng.randint(1, H) for _ in range(rng.choice([0, 0, 1, 2]))} - set(range(last + 1, head + 1)))
    if kind.startswith('api:'):
        outside = [x for x in outside if x > head] if kind != 'api:origination' else []
    faults = {}
    if rng.random() < 0.5:
        # bursts stay strictly below the retry cap: at most 5 transient replies per request, and fault
        # ordinals at least 8 attempts apart so that two directives can never hit the same client request
        slots = rng.sample(range(0, 8), rng.choice([1, 2, 4]))
        for slot in slots:
            ordinal = 1 + slot * 8 + rng.randint(0, 1)
            faults[str(ordinal)] = rng.choice(
                [{'f': 'transient', 'n': rng.randint(1, 5), 'status': rng.choice([500, 502, 503])}, {'f': 'preval', 'n': rng.randint(1, 5)},
                 {'f': 'latency', 'ms': rng.choice([10, 3000, 20000])}]
            )
    if kind not in ('api:origination', 'changes:kt') and rng.random() < 0.2:
        # one definitive failure (retry budget exhausted, permanent 5xx, connection error) somewhere in the search: the search may
        # give up with an error, but if it returns a result the result must still be exact
        faults = dict(faults)
        ordinal = 200 + rng.randint(0, 30)  # far from the transient slots; re-based below to an early request
        faults[str(ordinal)] = rng.choice([{'f': 'reject', 'how': 'perm'}, {'f': 'reject', 'how': 'exc'}, {'f': 'transient', 'n': 6, 'status': 503}])
        faults['hard_at'] = rng.randint(1, 40)
    baker = rng.random() < 0.4
    slice_mode = 'closed'
    if kind in ('api:ballots', 'api:upvotes') and rng.random() < 0.4:
        # less common ways to designate the same block range: an open slice (stop = head) or a negative start
        slice_mode = rng.choice(['open', 'neg'])
        H = head + 1
        outside = []
        if slice_mode == 'neg':
            baker = False  # a growing chain would move the start of a head-relative range
    scn_out = {
        'prop': ID, 'kind': kind, 'H': H, 'head': head, 'last': last, 'step': step, 'changes': changes, 'outside': outside,
        'faults': faults, 'baker': baker, 'latency_ms': rng.choice([0, 0, 5, 400]), 'nvotes': rng.choice([1, 1, 2, 3]),
        'slice_mode': slice_mode, 'presearch': kind.startswith('api:') and rng.random() < 0.35, 'steps': [],
    }
    if kind in ('api:ballots', 'api:upvotes') and rng.random() < 0.2:
        scn_out['interleave'] = True
    if kind.split(':')[1] in ('ballots', 'upvotes', 'proposals') and rng.random() < 0.35:
        # current nodes report voting power as int64 numbers sent as strings (mutez-scale or small)
        scn_out['power_as_string'] = rng.choice([1, 1, 1_000_000, 4_000_000_000])
    if kind in ('api:ballots', 'api:upvotes') and slice_mode == 'closed' and rng.random() < 0.3:
        # the stop block of the slice (one level past the searched range) closes the voting period: the tallies fall back to
        # what they were at the start block.  The searched range (last, head] itself never returns to an earlier value.
        scn_out['reset_at_stop'] = True
        scn_out['outside'] = []
    if scn_out['slice_mode'] == 'open' and rng.random() < 0.6:
        # the same open slice object is searched, the chain then moves on (new votes included), and it is searched again
        scn_out['presearch'] = True
        scn_out['baker'] = False
        k = rng.choice([1, 2, 5, 30])
        scn_out['grow_between'] = {'levels': k, 'changes': sorted({rng.randint(1, k) for _ in range(rng.choice([1, 1, 2]))})}
    if kind in ('api:ballots', 'api:upvotes') and last >= 2 and rng.random() < 0.04:
        # degenerate slices: blocks[N:N+1] searches the empty range (N, N], blocks[N:N] an inverted one; votes sit exactly in block N
        # and right after the slice, none inside: nothing may be reported (and nothing may blow up)
        scn_out.update(head=last - rng.choice([0, 1]), changes=[], outside=[last, last + 1], slice_mode='closed', degenerate=True)
        for k in ('reset_at_stop', 'grow_between', 'interleave'):
            scn_out.pop(k, None)
    return scn_out


def _vote_op(kind, i, source, level):
    if kind == 'ballot':
        content = {'kind': 'ballot', 'source': source, 'period': 1, 'proposal': PROP_A, 'ballot': ['yay', 'nay', 'pass'][i % 3]}
    elif kind == 'upvote':
        content = {'kind': 'proposals', 'source': source, 'period': 1, 'proposals': [PROP_A] + ([PROP_B] if i % 2 else [])}
    else:
        content = {'kind': 'proposals', 'source': source, 'period': 1, 'proposals': [PROP_B]}
    content['metadata'] = {}
    return {'protocol': nodesim.PROTO, 'chain_id': 'NetXdQprcVkpaWU', 'hash': oc.op_hash(b'vote/%d/%d/%s' % (level, i, kind.encode())),
            'branch': oc.block_hash(b'x'), 'contents': [content], 'signature': 'sigVote'}


def build_chain(node, scn, S=None, levels=None, changes=None):
    """Bake levels (default 1..H); returns the builder state S with the recorded history S['hist'] = {level: value} of the
    tracked quantity and (for api kinds) the operations expected per level.  Calling it again with the returned state and
    further `levels` extends the same chain (the chain moves on between two searches)."""
    kind = scn['kind']
    what = kind.split(':')[1]
    if S is None:
        S = {'hist': {0: None}, 'expected_ops': {}, 'ctr': 10, 'ballots': {'yay': 0, 'nay': 0, 'pass': 0}, 'rolls': {PROP_A: 0, PROP_B: 0},
             'kt': oc.b58enc('KT1', oc.blake2b(b'c29-contract', 20)), 'noise_i': 0, 'ktctr': None}
        if what in ('counter', 'info'):
            node.tracked['ctr:' + PKH] = S['ctr']
        elif what == 'ballots':
            node.tracked['ballots'] = dict(S['ballots'])
        elif what in ('proposals', 'upvotes'):
            node.tracked['proposals'] = []
        if what in ('counter', 'info'):
            S['hist'][0] = '10'
        elif what == 'ballots':
            S['hist'][0] = {'yay': 0, 'nay': 0, 'pass': 0}
        elif what == 'proposals':
            S['hist'][0] = []
        elif what == 'upvotes':
            S['hist'][0] = 0
    changes = (set(scn['changes']) | set(scn['outside'])) if changes is None else set(changes)
    levels = range(1, scn['H'] + 1) if levels is None else levels
    hist, expected_ops, ballots, rolls, kt = S['hist'], S['expected_ops'], S['ballots'], S['rolls'], S['kt']
    unit = scn.get('power_as_string')
    fmt = (lambda v: str(v * unit)) if unit else (lambda v: v)
    served = S.setdefault('served', {})
    if unit and 0 not in served:
        if what == 'ballots':
            node.tracked['ballots'] = {k: fmt(v) for k, v in ballots.items()}
            S['hist'][0] = dict(node.tracked['ballots'])
        elif what == 'upvotes':
            S['hist'][0] = fmt(0)
    served.setdefault(0, copy.deepcopy(node.tracked.get('ballots' if what == 'ballots' else 'proposals')))
    for lvl in levels:
        if lvl in changes:
            if what in ('counter', 'info'):
                S['ctr'] += 1 + (lvl % 3)
                node.tracked['ctr:' + PKH] = S['ctr']
            elif what == 'kt':
                # a contract that does not exist (value None) until its origination, then a counter that moves
                S['ktctr'] = 0 if S['ktctr'] is None else S['ktctr'] + 1 + (lvl % 2)
                node.tracked['kt:' + kt] = S['ktctr']
            elif what == 'ballots':
                ops = []
                for i in range(scn['nvotes'] if kind.startswith('api') else 1):
                    op = _vote_op('ballot', i, VOTERS[(lvl + i) % len(VOTERS)], lvl)
                    ballots[op['contents'][0]['ballot']] += 100 + i
                    ops.append(op)
                node.tracked['ballots'] = {k: fmt(v) for k, v in ballots.items()}
                node.vote_ops_next.extend(ops)
                expected_ops[lvl] = [o['hash'] for o in ops]
            elif what in ('proposals', 'upvotes'):
                ops = []
                for i in range(scn['nvotes'] if kind.startswith('api') else 1):
                    op = _vote_op('upvote', i, VOTERS[(lvl + i) % len(VOTERS)], lvl)
                    for p in op['contents'][0]['proposals']:
                        rolls[p] += 50 + i
                    ops.append(op)
                node.tracked['proposals'] = [[p, fmt(r)] for p, r in rolls.items() if r]
                node.vote_ops_next.extend(ops)
                expected_ops[lvl] = [o['hash'] for o in ops]
            elif what == 'origination':
                if ('kt:' + kt) not in node.tracked:
                    node.tracked['kt:' + kt] = 0
                    op = {'protocol': nodesim.PROTO, 'chain_id': 'NetXdQprcVkpaWU', 'hash': oc.op_hash(b'orig/%d' % lvl), 'branch': oc.block_hash(b'x'),
                          'contents': [{'kind': 'origination', 'source': PKH, 'fee': '0', 'counter': '1', 'gas_limit': '0', 'storage_limit': '0', 'balance': '0',
                                        'script': {}, 'metadata': {'operation_result': {'status': 'applied', 'originated_contracts': [kt]}}}],
                          'signature': 'sigOrig'}
                    node.manager_ops_next.append(op)
                    expected_ops[lvl] = [op['hash']]
        elif kind.startswith('api:') and (lvl * 7 + scn['H']) % 11 == 0:
            # noise that must not be reported: an upvote for another proposal / an origination of another contract
            S['noise_i'] += 1
            if what in ('ballots', 'upvotes'):
                op = _vote_op('other', S['noise_i'], VOTERS[lvl % len(VOTERS)], lvl)
                if what == 'upvotes':
                    rolls[PROP_B] += 7
                    node.tracked['proposals'] = [[p, fmt(r)] for p, r in rolls.items() if r]
                node.vote_ops_next.append(op)
            elif what == 'origination':
                other = oc.b58enc('KT1', oc.blake2b(b'other%d' % lvl, 20))
                node.manager_ops_next.append(
                    {'protocol': nodesim.PROTO, 'chain_id': 'NetXdQprcVkpaWU', 'hash': oc.op_hash(b'orig-other/%d' % lvl), 'branch': oc.block_hash(b'x'),
                     'contents': [{'kind': 'origination', 'source': PKH, 'metadata': {'operation_result': {'status': 'applied', 'originated_contracts': [other]}}},
                                  {'kind': 'transaction', 'source': PKH, 'metadata': {'operation_result': {'status': 'applied'}}}],
                     'signature': 'sigOrig'}
                )
        if what == 'info' and (lvl * 5 + scn['H']) % 3 == 0:
            # the balance moves at levels of its own: a caller who follows the counter only must not be told about them
            node.tracked['bal:' + PKH] = 1_000_000 + lvl
        if scn.get('reset_at_stop') and lvl == scn['head'] + 1 and what in ('ballots', 'upvotes'):
            # end of the voting period at the stop block: the node serves again what it served at the start block
            node.tracked['ballots' if what == 'ballots' else 'proposals'] = copy.deepcopy(served[scn['last']])
            S['reset_done'] = True
        node.bake()
        if what in ('ballots', 'upvotes', 'proposals'):
            served[lvl] = copy.deepcopy(node.tracked.get('ballots' if what == 'ballots' else 'proposals'))
        if what == 'info':
            # the whole object the node serves at this level (the caller's equality looks at the counter only)
            S.setdefault('full', {})[lvl] = {'balance': str(node.tracked.get('bal:' + PKH)), 'counter': str(S['ctr'])} if ('bal:' + PKH) in node.tracked else None
        if what in ('counter', 'info'):
            hist[lvl] = str(S['ctr'])
        elif what == 'kt':
            hist[lvl] = None if S['ktctr'] is None else str(S['ktctr'])
        elif what == 'ballots':
            hist[lvl] = {k: fmt(v) for k, v in ballots.items()}
        elif what == 'proposals':
            hist[lvl] = [[p, fmt(r)] for p, r in rolls.items() if r]
        elif what == 'upvotes':
            hist[lvl] = fmt(rolls[PROP_A])
        elif what == 'origination':
            hist[lvl] = '0' if ('kt:' + kt) in node.tracked else None
    return S


def execute(scn, want_log=False):
    from pytezos.rpc.node import RpcNode
    from pytezos.rpc.search import find_state_change
    from pytezos.rpc.search import find_state_changes
    from pytezos.rpc.search import walk_state_change_interval
    from pytezos.rpc.shell import ShellQuery

    sim = core.Sim()
    node = nodesim.SimNode(sim, {'block_delay_s': 8})
    node.add_account(PKH, counter=10)
    S = build_chain(node, scn)
    hist, expected_ops, kt = S['hist'], S['expected_ops'], S['kt']
    tr = core.Transport(sim, node.handle, latency_ms=scn['latency_ms'], max_requests=6000)
    faults = {k: v for k, v in scn['faults'].items() if k != 'hard_at'}
    hard_at = scn['faults'].get('hard_at')
    hard = next((v for k, v in faults.items() if int(k) >= 200), None) if hard_at else None
    faults = {k: v for k, v in faults.items() if int(k) < 200}
    hard_state = {'fired': False}

    def fault_for(req):
        if hard is not None and not hard_state['fired'] and req['i'] >= hard_at and str(req['i']) not in faults:
            hard_state['fired'] = True
            return hard
        return faults.get(str(req['i']))

    tr.fault_for = fault_for
    kind, what = scn['kind'].split(':')
    head, last, step = scn['head'], scn['last'], scn['step']
    violations = []
    probes = {}
    judged = 0

    def bump(p):
        probes[p] = probes.get(p, 0) + 1

    def violate(k, sig, **detail):
        detail.update(kind=scn['kind'], head=head, last=last, step=step, changes=scn['changes'])
        violations.append({'kind': k, 'sig': f'C29/{sig}', 'detail': detail})

    level0 = node.head['level']
    result = None
    err = None
    with core.Seams(sim, tr):
        if scn['baker']:
            node.start_baker()
        shell = ShellQuery(RpcNode('http://node0.sim:8732'))

        def get_counter(lvl):
            return shell.blocks[lvl].context.contracts[PKH].counter()

        def get_ballots(lvl):
            return shell.blocks[lvl].votes.ballots()

        def get_proposals(lvl):
            return shell.blocks[lvl].votes.proposals()

        def get_kt_counter(lvl):
            # the library's own idiom (find_origination): a contract that does not exist yet reads as None
            from pytezos.rpc.node import RpcError as _RpcError

            try:
                return shell.blocks[lvl].context.contracts[kt].counter()
            except _RpcError:
                return None

        def get_info(lvl):
            return shell.blocks[lvl].context.contracts[PKH]()

        getter = {'counter': get_counter, 'ballots': get_ballots, 'proposals': get_proposals, 'kt': get_kt_counter, 'info': get_info}.get(what)
        eq = lambda a, b: a == b  # noqa: E731
        if what == 'info':
            # a caller-supplied equality that is coarser than ==: only the counter matters
            eq = lambda a, b: a['counter'] == b['counter']  # noqa: E731
        sim.ev('search_begin', kind=scn['kind'], head=head, last=last, step=step)
        try:
            if kind == 'changes':
                result = list(find_state_changes(head, last, getter, eq, step=step))
            elif kind == 'single':
                result = find_state_change(head, last, getter, eq, pred_value=hist[last])
            elif kind == 'walk':
                result = list(walk_state_change_interval(head, last, getter, eq, head_value=hist[head], last_value=hist[last]))
            elif kind == 'api':
                # slice [last : head+1] -> the helper searches (last, head] (it passes head = stop - 1)
                mode = scn.get('slice_mode', 'closed')
                if mode == 'open':
                    sl = shell.blocks[last:]
                elif mode == 'neg':
                    sl = shell.blocks[-(scn['H'] - last) :]
                else:
                    sl = shell.blocks[last : head + 1]
                if scn.get('presearch'):
                    # the same slice object is first used for another search: nothing of it may leak into the judged one
                    sim.ev('presearch')
                    if what == 'upvotes':
                        list(sl.find_upvotes(PROP_B))
                    elif what == 'ballots':
                        list(sl.find_ballots())
                    else:
                        try:
                            sl.find_origination(oc.b58enc('KT1', oc.blake2b(b'never-originated', 20)))
                        except Exception:  # noqa: BLE001  (a contract that never appears: whatever the helper does, it must not poison the next search)
                            pass
                    gb = scn.get('grow_between')
                    if gb:
                        # the chain moves on between the two searches on the same (open) slice
                        was = node.baker_on
                        node.baker_on = False
                        top = node.head['level']
                        build_chain(node, scn, S, levels=range(top + 1, top + 1 + gb['levels']), changes=[top + c for c in gb['changes']])
                        node.baker_on = was
                        head = node.head['level'] - 1  # an open slice ends at the current head; the helper searches up to head - 1
                        bump('chain_extended_between_two_searches')
                if scn.get('interleave') and what in ('ballots', 'upvotes'):
                    # two lazily evaluated searches on the same slice object, consumed alternately
                    main = sl.find_ballots() if what == 'ballots' else sl.find_upvotes(PROP_A)
                    other = sl.find_ballots() if what == 'ballots' else sl.find_upvotes(PROP_B)
                    result = []
                    done_main = done_other = False
                    while not done_main:
                        try:
                            result.append(next(main)['hash'])
                        except StopIteration:
                            done_main = True
                        if not done_other:
                            try:
                                next(other)
                            except StopIteration:
                                done_other = True
                    bump('two_searches_interleaved')
                elif what == 'ballots':
                    result = [op['hash'] for op in sl.find_ballots()]
                elif what == 'upvotes':
                    result = [op['hash'] for op in sl.find_upvotes(PROP_A)]
                elif what == 'origination':
                    result = sl.find_origination(kt)['hash']
        except core.SimCapExceeded as e:
            err = e
        except Exception as e:  # noqa: BLE001
            err = e
        node.baker_on = False
    exp_changes = [(l, hist[l]) for l in range(last + 1, head + 1) if hist[l] != hist[l - 1]]
    sim.ev('search_end', result=json.dumps(result, default=str)[:600], err=(type(err).__name__ + ':' + str(err)[:200]) if err else None)

    # ---- probes
    if any(l == last + 1 for l, _ in exp_changes):
        bump('change_at_last_plus_1')
    if any(l == head for l, _ in exp_changes):
        bump('change_at_head')
    if any(b[0] - a[0] == 1 for a, b in zip(exp_changes, exp_changes[1:])):
        bump('adjacent_changes')
    if step >= head - last:
        bump('step_exceeds_range')
    if not exp_changes:
        bump('no_change_in_range')
    if scn.get('presearch'):
        bump('slice_reused_for_second_search')
    if what == 'kt':
        bump('none_valued_history')
    if what == 'info':
        bump('coarse_equality')
    if scn.get('reset_at_stop') and S.get('reset_done') and scn['changes']:
        bump('tallies_reset_at_stop_block')
    if scn.get('power_as_string') and scn['changes']:
        bump('voting_power_sent_as_string')
    if scn.get('degenerate'):
        bump('empty_or_inverted_slice')
    if (head - last) / max(step, 1) > 512:
        bump('more_than_512_sampling_points')
    if sim.stats.get('fault:transient', 0) + sim.stats.get('fault:preval', 0) + sim.stats.get('fault:latency', 0):
        bump('fault_during_search')
    if node.head['level'] > level0:
        bump('chain_grew_during_search')
    if hard_state['fired'] and err is None:
        bump('returned_despite_definitive_failure')

    # ---- judge
    judged = 1
    lowest_sample = head - ((head - last - 1) // step) * step  # lowest sampled level above `last`

    def where(level):
        return 'tail' if last < level <= lowest_sample else 'interior'

    if isinstance(err, core.SimCapExceeded):
        violate('termination', 'no-termination', cap=str(err))
    elif err is not None and hard_state['fired']:
        # a definitive failure was injected and the search gave up with an error: acceptable, nothing was reported
        bump('search_aborted_by_definitive_failure')
        judged = 0
    elif err is not None:
        violate('raises', f'raises:{type(err).__name__}', error=str(err)[:300])
    elif kind in ('changes', 'walk'):
        got = [(l, v['counter'] if what == 'info' else v) for l, v in result]
        stale = None
        if what == 'info' and got == exp_changes:
            # "with the new value": the object reported for a level is the object the node holds at that level, whatever the equality used
            stale = next(((l, v, S['full'][l]) for l, v in result if S.get('full', {}).get(l) is not None and v != S['full'][l]), None)
        if stale is not None:
            violate('value', 'wrong-value:not-the-value-at-the-change-level', level=stale[0], got=stale[1], expected=stale[2])
        elif got != exp_changes:
            gl = [l for l, _ in got]
            el = [l for l, _ in exp_changes]
            if sorted(gl) == sorted(el) and gl != el:
                violate('order', 'not-increasing-order', got=gl, expected=el)
            elif set(el) - set(gl):
                miss = sorted(set(el) - set(gl))
                violate('missed', f'missed-change:{where(miss[0])}', got=gl, expected=el, missed=miss)
            elif set(gl) - set(el):
                violate('spurious', 'spurious-change', got=gl, expected=el)
            elif len(gl) != len(el):
                violate('spurious', 'duplicate-report', got=gl, expected=el)
            else:
                violate('value', 'wrong-value', got=got[:6], expected=exp_changes[:6])
    elif kind == 'single':
        first = next((l for l in range(last + 1, head + 1) if hist[l] != hist[last]), None)
        if first is None:
            judged = 0
        elif tuple(result) != (first, hist[first]):
            violate('single', 'single-wrong-level' if result[0] != first else 'single-wrong-value', got=list(result), expected=[first, hist[first]])
    elif kind == 'api':
        if what == 'origination':
            lvl = scn['changes'][0]
            if result != expected_ops[lvl][0]:
                violate('api', 'api-origination-wrong-operation', got=result, expected=expected_ops[lvl][0])
        else:
            want = [h for l in sorted(expected_ops) if last < l <= head for h in expected_ops[l]]
            if result != want:
                if sorted(result) == sorted(want):
                    violate('order', 'api-not-increasing-order', got=result, expected=want)
                elif set(want) - set(result):
                    violate('missed', 'api-missed-operation', got=result, expected=want)
                else:
                    violate('spurious', 'api-spurious-operation', got=result, expected=want)

    nchg = len(exp_changes)
    state = (scn['kind'], min(nchg, 3), any(l == last + 1 for l, _ in exp_changes), any(l == head for l, _ in exp_changes),
             'ge' if step >= head - last else ('1' if step == 1 else 'lt'), any(b[0] - a[0] == 1 for a, b in zip(exp_changes, exp_changes[1:])))
    out = {
        'violations': violations,
        'judged': judged if (nchg > 0 or head - last >= 3) else 0,
        'faults': {k[6:]: v for k, v in sim.stats.items() if k.startswith('fault:')},
        'probes': probes,
        'states': [str(state)],
        'seqs': [],
        'virtual_ms': sim.now_ms,
        'unmodelled': dict(node.unmodelled),
        'digest': sim.digest(),
        'summary': {'kind': scn['kind'], 'range': [last, head], 'step': step, 'expected_changes': [l for l, _ in exp_changes], 'requests': tr.attempts,
                    'result': json.loads(json.dumps(result, default=str)) if result is not None else None},
    }
    if want_log:
        out['log'] = [e for e in sim.log if e['k'] != 'bake' or e['level'] > scn['H']]
    return out


STEPS_KEY = 'steps'


def simplify(scn):
    def cp():
        return json.loads(json.dumps(scn))

    if scn['faults']:
        c = cp()
        c['faults'] = {}
        yield c
        for k in list(scn['faults']):
            if k == 'hard_at' or int(k) >= 200:
                continue
            c = cp()
            del c['faults'][k]
            yield c
        if 'hard_at' in scn['faults']:
            c = cp()
            c['faults'] = {k: v for k, v in scn['faults'].items() if k != 'hard_at' and int(k) < 200}
            yield c
    if scn['baker']:
        c = cp()
        c['baker'] = False
        yield c
    if scn.get('slice_mode', 'closed') != 'closed':
        c = cp()
        c['slice_mode'] = 'closed'
        yield c
    if scn.get('grow_between'):
        c = cp()
        del c['grow_between']
        yield c
    if scn.get('interleave'):
        c = cp()
        del c['interleave']
        yield c
    if scn.get('presearch') and not scn.get('grow_between'):
        c = cp()
        c['presearch'] = False
        yield c
    if scn['latency_ms']:
        c = cp()
        c['latency_ms'] = 0
        yield c
    if scn['outside']:
        c = cp()
        c['outside'] = []
        yield c
    for i in range(len(scn['changes'])):
        if len(scn['changes']) > 1 or scn['kind'] not in ('single:counter', 'api:origination'):
            c = cp()
            del c['changes'][i]
            yield c
    if scn['nvotes'] > 1:
        c = cp()
        c['nvotes'] = 1
        yield c
    # shrink the chain / range toward small numbers while keeping relative positions
    if scn['H'] > scn['head']:
        c = cp()
        c['H'] = scn['head']
        c['outside'] = [x for x in c['outside'] if x <= c['H']]
        yield c
    if scn['last'] > (1 if scn['kind'].startswith('api:') and scn['kind'] != 'api:origination' else 0) and scn['kind'] != 'api:origination':
        d = scn['last'] - (1 if scn['kind'].startswith('api:') else 0)
        c = cp()
        c['last'] -= d
        c['head'] -= d
        c['H'] = max(c['head'], c['H'] - d)
        c['changes'] = [x - d for x in c['changes']]
        c['outside'] = [x - d for x in c['outside'] if x - d >= 1]
        yield c
    if scn['head'] - scn['last'] > 2:
        # pull head down to just above the last change
        top = max(scn['changes'] + [scn['last'] + 1])
        for newhead in (top, top + 1, (scn['head'] + top) // 2):
            if scn['last'] < newhead < scn['head'] and (not scn['kind'].startswith('api:') or newhead - scn['last'] >= 3):
                c = cp()
                c['head'] = newhead
                c['H'] = max(newhead, min(c['H'], newhead + 2))
                c['outside'] = [x for x in c['outside'] if x <= c['H'] and x > newhead]
                yield c
    for s in (1, 2, scn['step'] // 2):
        if 1 <= s < scn['step']:
            c = cp()
            c['step'] = s
            yield c


def valid(scn):
    ords = sorted(int(k) for k in scn['faults'] if k != 'hard_at' and int(k) < 200)
    if any(b - a < 7 for a, b in zip(ords, ords[1:])) or any(d.get('n', 0) > 5 for k, d in scn['faults'].items() if k != 'hard_at' and int(k) < 200):
        return False
    if 'hard_at' in scn['faults'] and scn['kind'] in ('api:origination', 'changes:kt'):
        return False
    api = scn['kind'].startswith('api:')
    orig = scn['kind'] == 'api:origination'
    if scn.get('slice_mode', 'closed') != 'closed':
        if scn['H'] != scn['head'] + 1 or scn['outside'] or scn['kind'] not in ('api:ballots', 'api:upvotes'):
            return False
        if scn['slice_mode'] == 'neg' and scn['baker']:
            return False
    if scn.get('grow_between') and (scn.get('slice_mode') != 'open' or not scn.get('presearch') or scn['baker']):
        return False
    if scn['step'] < 1 or not (scn['last'] < scn['head'] < scn['H']):
        return False
    if orig:
        if scn['last'] != 0 or len(scn['changes']) != 1 or scn['outside']:
            return False
    elif scn['last'] < 1:
        return False
    if any(not (scn['last'] < x <= scn['head']) for x in scn['changes']):
        return False
    if any(scn['last'] < x <= scn['head'] or not (1 <= x <= scn['H']) for x in scn['outside']):
        return False
    if scn['kind'] == 'single:counter' and not scn['changes']:
        return False
    if api and not orig:
        if scn['head'] - scn['last'] < 3 or any(x <= scn['last'] for x in scn['outside']):
            return False
    return True
