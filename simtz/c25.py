"""C25 — Injected operations carry the account's next counters.

World `nodesim` via clientsim.World.  Oracle, evaluated by the simulated node when bytes
arrive: the independently decoded contents of the account carry counters
N+P+1 .. N+P+k (N = account counter at head, P = the account's contents pending in the
validated mempool).  Re-delivered bytes (same operation hash) are idempotent duplicates
and are answered by the node before the oracle.
"""
import json

from simtz import clientsim as cs
from simtz.runner import rng_for

ID = 'C25'
QUICK_RUNS = 3000
QUICK_BUDGET_S = 90
CHUNK = 50
CHUNK_TIMEOUT_S = 600
RULE = (
    'seed -> config (key kind, mempool dialect validated/applied/pairs, initial counter across varint sizes, baker timer, block delay, latency, '
    'sandboxed or not) and a history of 1..6 serial group lifecycles built from templates (autofill/sign/inject, send, fill/sign/inject, '
    'inspect-then-send, repeated autofill from base or from the filled result, lost-ack re-inject, rejected injection then retry or abandon) with '
    'bake/sleep/noise steps in between and fault directives placed on in-flight RPCs (counter read, run_operation, mempool read, injection POST). '
    'Non-trivial = at least one injection reached the node and was judged; distinct = scenario digest.'
)
STATE_MEASURE = '(fill path, prior fills of the group 0/1/2+, pending bucket 0/1/2+, previous step kind, last fault kind, dialect)'
COMPONENTS = {
    'real': ['pytezos.client.PyTezosClient', 'pytezos.operation.group.OperationGroup (fill, autofill, run, sign, inject, send)',
             'pytezos.context.impl.ExecutionContext (get_counter, set_counter, reset, get_counter_offset, sandboxed, get_operations_ttl)',
             'pytezos.operation.content.ContentMixin', 'pytezos.operation.forge / michelson.forge', 'pytezos.operation.fees', 'pytezos.crypto.key.Key (sign)',
             'pytezos.rpc.shell.ShellQuery.wait_blocks/wait_operations, PendingOperationsQuery', 'pytezos.rpc.node.RpcNode (retry loop)'],
    'stub': ['HTTP transport', 'clock/sleep/datetime', 'the node (SimNode: accounts, mempool, baker timer, run_operation, injection with independent decoder '
             'and signature verification via cryptography)', 'other accounts (noise operations)'],
}
ASSUMPTIONS = [
    'Histories are serial: between the last *successful* fill/autofill of a group and its injection no other group of the account is injected; '
    'preparations of two groups may interleave as long as that holds. Injections outside this shape (a refill failed and the stale result is '
    'injected after another group went in) are counted as interleaved_unjudged.',
    'A block that includes the account\'s own operations landing between the counter read and the mempool read of one client call is an inherent '
    'race of two non-atomic RPC reads; such injections are counted as informational (race_unjudged), not judged.',
    'run_operation validates counters against the head context like Octez does (pending operations are not applied), so simulating an already '
    'offset counter fails instead of silently succeeding.',
    'tz4: OperationGroup.sign() cannot produce a generic BLS signature today (subject of C07/C23); the harness attaches the curve-specific signature.',
    'The current Octez mempool dialect is `validated` (the repository\'s own block/header.py and RPC docs use it); the legacy `applied` dialects are sampled too.',
]
EXPECTED_PROBES = ['own_operation_arrived_during_client_call', 'interleaved_preparation', 'injection_with_pending', 'injection_after_failed_injection', 'ack_lost_then_reinjected', 'baked_inside_client_call',
                   'refill_before_inject', 'counter_crossed_varint_boundary', 'batch_injected']

TEMPLATES = {
    'autofill_inject': ['new', 'autofill', 'sign', 'inject'],
    'send': ['new', 'send'],
    'fill_inject': ['new', 'fill', 'sign', 'inject'],
    'inspect_twice': ['new', 'autofill', 'autofill', 'sign', 'inject'],
    'inspect_then_send': ['new', 'autofill', 'send'],
    'fill_then_autofill': ['new', 'fill', 'autofill@filled', 'sign', 'inject'],
    'autofill_autofilled': ['new', 'autofill', 'autofill@filled', 'sign', 'inject'],
    'ack_lost_retry': ['new', 'autofill', 'sign', 'inject!ack_lost', 'inject'],
    'reject_retry': ['new', 'autofill', 'sign', 'inject!reject', 'inject'],
    'reject_abandon': ['new', 'autofill', 'sign', 'inject!reject'],
    'send_ack_lost': ['new', 'send!ack_lost'],
    'fill_inspect_send': ['new', 'fill', 'send'],
    'fill_twice': ['new', 'fill', 'fill', 'sign', 'inject'],
    'fill_filled': ['new', 'fill', 'fill@filled', 'sign', 'inject'],
    # two groups of the account whose preparations interleave; each group's *last* fill still follows the other group's injection,
    # so the history stays inside the statement ("#1" = the second group)
    'inspect_other_sends_then_send': ['new', 'autofill', 'new#1', 'send#1', 'send'],
    'fill_other_injects_then_autofill': ['new', 'fill', 'new#1', 'autofill#1', 'sign#1', 'inject#1', 'autofill', 'sign', 'inject'],
    'inspect_other_fails_then_send': ['new', 'autofill', 'new#1', 'autofill#1', 'sign#1', 'inject#1!reject', 'send'],
}
FAULT_KINDS = ['transient', 'preval', 'latency', 'transient_cap', 'http_status']


def gen_contents(rng, n):
    specs = []
    for _ in range(n):
        k = rng.choice(['transaction', 'transaction', 'transaction', 'delegation', 'origination', 'register_global_constant', 'contract_call'])
        s = {'kind': k}
        if k == 'contract_call':
            s['arg'] = rng.choice([0, 1, 63, 64, 10**9])
            s['entrypoint'] = rng.choice(['increment', 'decrement'])
            if rng.random() < 0.3:
                s['pinned_block'] = rng.choice([1, 2, 3])
        if k == 'transaction':
            if rng.random() < 0.3:
                s['dest'] = cs.KT
                s['param_len'] = rng.choice([0, 3, 40])
            else:
                s['dest'] = rng.choice(cs.OTHERS)
            s['amount'] = rng.choice([0, 1, 127, 128, 10**6])
        specs.append(s)
    return specs


def gen(seed, tier):
    rng = rng_for(seed, 25)
    r = rng.random()
    key = 'tz1' if r < 0.6 else 'tz2' if r < 0.78 else 'tz3' if r < 0.97 else 'tz4'
    dialect = rng.choice(['validated', 'validated', 'validated', 'applied', 'applied+pairs'])
    baker = rng.random() < 0.5
    cfg = {
        'key': key,
        'pending_key': 'validated' if dialect == 'validated' else 'applied',
        'pending_pairs': dialect == 'applied+pairs',
        'counter0': rng.choice([0, 8, 9, 10, 10, 97, 98, 99, 125, 126, 127, 998, 16381, 16382, 16383, 2**21 - 2, 2**31, 2**63 - 2, 2**64 - 2, 2**64 + 5]),
        'baker': baker,
        'block_delay_s': rng.choice([1, 4, 8, 15]),
        'bake_jitter_ms': [rng.choice([0, 300, 2500]) for _ in range(3)],
        'latency_ms': rng.choice([0, 0, 0, 50, 700, 3000]) if baker else rng.choice([0, 0, 20, 150]),
        'chain_name': rng.choice(['TEZOS_MAINNET', 'TEZOS_MAINNET', 'SANDBOXED_TEZOS']),
        'prebake': rng.choice([1, 2, 5]),
        'watch_only': rng.random() < 0.08,
        'key_revealed': rng.random() < 0.5,
    }
    fault_free = rng.random() < 0.35
    enabled_faults = [f for f in FAULT_KINDS if rng.random() < 0.5]
    p_fault = 0.0 if fault_free or not enabled_faults else rng.choice([0.1, 0.25, 0.5])
    names = sorted(TEMPLATES)
    enabled_templates = [t for t in names if rng.random() < 0.5] or [rng.choice(names)]
    p_env = rng.choice([0.0, 0.2, 0.5])
    nlife = rng.choice([1, 2, 2, 3, 4, 6]) if tier == 'thorough' else rng.choice([1, 2, 2, 3, 4])
    if rng.random() < (0.15 if tier == 'thorough' else 0.03):
        nlife = rng.choice([8, 12])  # a long run-up: many lifecycles on one client and one node
    if key == 'tz4':
        nlife = min(nlife, 2)
    steps = []

    def env_steps():
        while rng.random() < p_env:
            c = rng.random()
            if c < 0.4:
                steps.append({'op': 'bake', 'n': rng.choice([1, 1, 2, 3])})
            elif c < 0.6:
                steps.append({'op': 'sleep', 's': rng.choice([0.5, 3, 9, 40])})
            elif c < (0.75 if cfg['latency_ms'] else 0.85):
                steps.append({'op': 'noise', 'acct': rng.randint(0, 2), 'n': rng.choice([1, 2]),
                              'where': rng.choice(['validated', 'validated', 'refused', 'branch_delayed', 'unprocessed'])})
            elif c < 0.93:
                # a pending manager operation of the account made by another wallet, of a kind pytezos cannot build itself
                steps.append({'op': 'noise', 'own_foreign': True, 'n': rng.choice([1, 1, 2]),
                              'kind': rng.choice(['increase_paid_storage', 'update_consensus_key', 'set_deposits_limit', 'smart_rollup_originate'])})
                if cfg['latency_ms'] and rng.random() < 0.6:
                    # ... and it reaches the node a little later, possibly while the next client call is in flight
                    steps[-1]['after_ms'] = rng.randint(0, 14) * cfg['latency_ms'] + 1  # lands in the latency window of one of the next requests
            else:
                # an operation of the account itself that is listed by the node but will never take a counter
                steps.append({'op': 'noise', 'own_stale': True, 'n': rng.choice([1, 2]), 'where': rng.choice(['outdated', 'outdated', 'refused', 'branch_refused', 'branch_delayed'])})

    for li in range(nlife):
        tname = rng.choice(enabled_templates)
        g = f'g{li}'
        n = rng.choice([1, 1, 1, 2, 3, 8]) if key != 'tz4' else 1
        for tok in TEMPLATES[tname]:
            env_steps()
            base, _, mark = tok.partition('!')
            base, _, other = base.partition('#')
            op, _, frm = base.partition('@')
            st = {'op': op, 'g': g + ('b' if other else '')}
            if op == 'new':
                st['contents'] = gen_contents(rng, n)
                if rng.random() < 0.08:
                    # a batch that starts by revealing the key (refused by the node when the key is revealed already)
                    st['contents'] = [{'kind': 'reveal'}] + st['contents']
                st['via'] = rng.choice(['chain', 'chain', 'bulk'])
                if st['via'] == 'bulk' and rng.random() < 0.3:
                    st['stale_member'] = True
                if n == 1 and rng.random() < 0.25:
                    st['contents'] = [{'kind': 'contract_call', 'arg': rng.choice([0, 5, 10**9]), 'entrypoint': rng.choice(['increment', 'decrement'])}]
                    st['via'] = 'call'
            if frm:
                st['from'] = frm
            if op in ('inject', 'send') and baker and rng.random() < 0.35:
                st['minconf'] = rng.choice([1, 1, 2])
            if op == 'autofill' and rng.random() < 0.2:
                # caller-supplied fee / limits: the counters are still the client's business
                kw = {}
                for name, val in (('fee', rng.choice([1000, 50000])), ('gas_limit', rng.choice([5000, 100000])), ('storage_limit', rng.choice([0, 300]))):
                    if rng.random() < 0.7:
                        kw[name] = val
                if kw:
                    st['kw'] = kw
            if op == 'fill' and rng.random() < 0.15:
                st['kw'] = {'gas_limit': rng.choice([5000, 100000]), 'storage_limit': rng.choice([0, 300])}
            if op == 'send' and rng.random() < 0.15:
                st['kw'] = {'gas_reserve': rng.choice([0, 500]), 'burn_reserve': rng.choice([0, 50])}
            if op in ('fill', 'autofill', 'send') and rng.random() < 0.15:
                # documented, rarely used: the time-to-live of the operation (selects the branch block); -1 = maximum
                st.setdefault('kw', {})['ttl'] = rng.choice([1, 5, 60, 120] + ([-1] if op != 'send' else []))
            if op == 'fill' and rng.random() < 0.1:
                st.setdefault('kw', {})['minimal_nanotez_per_gas_unit'] = rng.choice([100, 250])
            if op in ('fill', 'autofill') and not frm and rng.random() < 0.08:
                # documented manual handling of the counter: the caller passes the next counter it has read from the node itself
                st.setdefault('kw', {})['counter'] = 'head+1'
            if op == 'inject' and st.get('minconf') and rng.random() < 0.3:
                st['wait'] = rng.choice([2, 5, 20])
            if op == 'inject' and rng.random() < 0.2:
                st['prevalidate'] = False
            faults = {}
            if mark == 'ack_lost':
                faults['inj'] = {'f': 'ack_lost', 'how': rng.choice(['exc', 'perm', 'temp'])}
            elif mark == 'reject':
                faults['inj'] = {'f': 'reject', 'how': rng.choice(['exc', 'perm'])}
            if op in ('fill', 'autofill', 'inject', 'send') and rng.random() < p_fault:
                where = rng.choice(['ctr', 'run', 'pend', 'inj', 'hdr', str(rng.randint(1, 8))])
                fk = rng.choice(enabled_faults)
                if fk == 'transient':
                    d = {'f': 'transient', 'n': rng.randint(1, 5), 'status': rng.choice([500, 502, 503])}
                elif fk == 'transient_cap':
                    d = {'f': 'transient', 'n': 6, 'status': 503}
                elif fk == 'http_status':
                    # a gateway that hides this RPC (only meaningful on reads; the injection POST keeps its own fault kinds)
                    d = {'f': 'status', 'code': rng.choice([404, 404, 401, 403])}
                    if where == 'inj':
                        where = rng.choice(['pend', 'pend', 'ctr', 'hdr'])
                elif fk == 'preval':
                    d = {'f': 'preval', 'n': rng.randint(1, 5)}
                else:
                    d = {'f': 'latency', 'ms': rng.choice([200, cfg['block_delay_s'] * 1000 + 500, cfg['block_delay_s'] * 2500])}
                if where not in faults:
                    faults[where] = d
            if faults:
                st['faults'] = faults
            if op in ('fill', 'autofill', 'inject', 'send') and rng.random() < 0.06:
                # schedule point inside the call: an operation of the account made through another wallet reaches the node between two
                # requests of this very call (before the mempool read, before the simulation, before the injection, ...)
                st['arrival'] = {'before': rng.choice(['inj', 'inj', 'pend', 'run', 'ctr', str(rng.randint(1, 8))]), 'n': rng.choice([1, 1, 2]),
                                 'kind': rng.choice(['increase_paid_storage', 'set_deposits_limit'])}
            steps.append(st)
        env_steps()
    return {'prop': ID, 'cfg': cfg, 'steps': steps}


class C25World(cs.World):
    MATCH = {'inj': '/injection/operation', 'pend': '/chains/main/mempool/pending_operations', 'run': '/helpers/scripts/run_operation',
             'ctr': '/context/contracts/', 'hdr': '/header'}

    def _fault_for(self, req):
        rel = req['i'] - self.step_first
        arr = (self.cur_step or {}).get('arrival')
        if arr and not arr.get('_done') and (self.MATCH[arr['before']] in req['path'] if arr['before'] in self.MATCH else str(rel) == arr['before']):
            # another wallet's operation of this account reaches the node just before this request of the call is served
            arr['_done'] = True
            self.node.add_foreign_kind_pending(self.pkh, kind=arr.get('kind', 'increase_paid_storage'), n=arr.get('n', 1))
            self.bump(self.info, 'own_pending_operation_of_foreign_kind')
            self.bump(self.probes, 'own_operation_arrived_during_client_call')
        d = self.step_faults.get(str(rel))
        if d is None:
            for key, frag in self.MATCH.items():
                if key in self.step_faults and frag in req['path']:
                    d = self.step_faults.pop(key)  # one-shot: the first matching request of the step
                    break
        if d:
            self.last_fault = d['f']
        return d

    def run(self):
        # wrap _do to maintain the per-step race bookkeeping
        orig = self._do

        def do(st):
            node = self.node
            node.counter_read_epoch = {}
            node.race_tainted = {}
            node.last_counter_served = {}
            self.step_faults = dict(self.step_faults)
            before = node.head['level']
            g0 = self.groups.get(st.get('g'))
            n_now = node.accounts[self.pkh]['counter']
            p_now = node.pending_of(self.pkh)
            # counters are (re)assigned only when filling from the unfilled base
            reassigns = st['op'] == 'send' or not (st.get('from') == 'filled' and g0 is not None and g0.get('filled') is not None)
            acc_now = self.sim.stats.get('injections_accepted', 0)
            if g0 is not None and st['op'] == 'send':
                g0['n_fill'], g0['p_fill'] = n_now, p_now
                g0['acc_at_fill'] = acc_now
                g0['_send_live'] = True
            # the reference point for "nothing of the account was accepted in between" is the moment the library last looked at the
            # mempool in this call (an operation made through another wallet may reach the node while the call is in flight)
            seen = {'acc': None}

            def on_pending_read():
                seen['acc'] = self.sim.stats.get('injections_accepted', 0)
                gg = self.groups.get(st.get('g'))
                if gg is not None and st['op'] == 'send':
                    gg['acc_at_fill'] = seen['acc']

            node.on_pending_read = on_pending_read if st['op'] in ('autofill', 'send') else None
            ok = False
            try:
                orig(st)
                ok = True
            finally:
                node.on_pending_read = None
                if st['op'] in ('fill', 'autofill', 'send', 'inject', 'sign') and node.head['level'] > before:
                    self.bump(self.probes, 'baked_inside_client_call')
                g = self.groups.get(st.get('g'))
                if g is not None and st['op'] in ('fill', 'autofill') and ok:
                    g['tainted'] = bool(node.race_tainted.get(self.pkh))
                    if st['op'] == 'autofill' or reassigns:
                        # a fill of an already filled group leaves its counters alone: it does not move the reference point
                        g['acc_at_fill'] = seen['acc'] if (st['op'] == 'autofill' and seen['acc'] is not None) else acc_now
                    if reassigns:
                        # the facts at the moment the node served the counter (a block may land while the call is in flight)
                        g['n_fill'], g['p_fill'] = node.last_counter_served.get(self.pkh, (n_now, p_now))

        self._do = do
        super().run()


def oracle(world, info):
    if info['source'] != world.pkh:
        return None
    g = info.get('group') or {}
    st = info['step'] or {}
    n, p = info['node_counter'], info['pending']
    got = info['counters']
    want = list(range(n + p + 1, n + p + 1 + len(got)))
    dialect = world.cfg['pending_key'] + ('+pairs' if world.cfg.get('pending_pairs') else '')
    path = g.get('path') or st.get('op')
    prior = max(0, g.get('fills', 1) - 1)
    pb = '0' if p == 0 else '+'
    world.states.add(f'{path}/{min(prior, 2)}/{min(p, 2)}/{world.last_kind}/{world.last_fault}/{dialect}')
    # reach probes
    if p > 0:
        world.bump(world.probes, 'injection_with_pending')
    if world.info.get('client_step_failed:inject') or world.info.get('client_step_failed:send'):
        world.bump(world.probes, 'injection_after_failed_injection')
    if prior > 0:
        world.bump(world.probes, 'refill_before_inject')
    if any(name != st.get('g') and name.rstrip('b') == str(st.get('g', '')).rstrip('b') for name in world.groups):
        world.bump(world.probes, 'interleaved_preparation')
    if len(got) > 1:
        world.bump(world.probes, 'batch_injected')
    lo, hi = want[0], want[-1]
    if any(lo <= b <= hi + 1 for b in (128, 16384, 2**21, 2**28, 2**63, 2**64)) or any(lo - 1 < b <= hi for b in (128, 16384, 2**21)):
        world.bump(world.probes, 'counter_crossed_varint_boundary')
    tainted = bool(g.get('tainted')) or bool(world.node.race_tainted.get(world.pkh))
    if g.get('acc_at_fill') is not None and world.sim.stats.get('injections_accepted', 0) != g['acc_at_fill']:
        # another group of the account was accepted after this group's last successful fill (e.g. its refill failed and the
        # stale result was injected anyway): the history left the shape the statement speaks about
        world.bump(world.info, 'interleaved_unjudged')
        return None
    if got == want:
        world.judged += 1
        return None
    if tainted:
        world.bump(world.info, 'race_unjudged')
        return None
    world.judged += 1
    consecutive = all(b - a == 1 for a, b in zip(got, got[1:]))
    n_fill, p_fill = g.get('n_fill'), g.get('p_fill')
    if not consecutive:
        cls = 'nonconsecutive'
    elif got[0] > want[0]:
        cls = 'ahead'
    else:
        cls = 'behind'
    if consecutive and path == 'fill' and n_fill is not None and p_fill and got[0] == n_fill + 1:
        # fill() numbered the group from the head counter while the account had operations pending
        sig = 'C25/fill-ignores-pending'
    else:
        pf = '?' if p_fill is None else ('0' if p_fill == 0 else '+')
        sig = (f'C25/{cls}:path={path}:pending_at_fill={pf}:prior_fills={"0" if prior == 0 else "+"}:'
               f'from_filled={"y" if g.get("refilled_from_filled") else "n"}:dialect={dialect}')
    world.violations.append({
        'kind': 'counter', 'sig': sig,
        'detail': {'step_index': info['step_index'], 'group': st.get('g'), 'got': got, 'expected': want, 'node_counter': n, 'pending': p, 'path': path,
                   'prior_fills': prior, 'dialect': dialect, 'hash': info['hash'], 'counter_at_fill': n_fill, 'pending_at_fill': p_fill},
    })
    return None


def execute(scn, want_log=False):
    w = C25World(scn, oracle)
    w.run()
    out = w.result(want_log)
    if w.sim.stats.get('injection_duplicate') and any('ack_lost' in json.dumps(s.get('faults', {})) for s in scn['steps']):
        out['probes']['ack_lost_then_reinjected'] = out['probes'].get('ack_lost_then_reinjected', 0) + 1
    return out


def simplify(scn):
    def cp():
        return json.loads(json.dumps(scn))

    for i, st in enumerate(scn['steps']):
        if st.get('faults'):
            c = cp()
            del c['steps'][i]['faults']
            yield c
            if len(st['faults']) > 1:
                for k in st['faults']:
                    c = cp()
                    del c['steps'][i]['faults'][k]
                    yield c
        if st['op'] == 'new':
            if len(st['contents']) > 1:
                c = cp()
                c['steps'][i]['contents'] = st['contents'][:1]
                yield c
                c = cp()
                c['steps'][i]['contents'] = st['contents'][: len(st['contents']) // 2]
                yield c
            if any(s != {'kind': 'transaction', 'dest': cs.OTHERS[0], 'amount': 0} for s in st['contents']):
                c = cp()
                c['steps'][i]['contents'] = [{'kind': 'transaction', 'dest': cs.OTHERS[0], 'amount': 0} for _ in st['contents']]
                yield c
            if st.get('stale_member'):
                c = cp()
                del c['steps'][i]['stale_member']
                yield c
            if st.get('via') == 'bulk' and not st.get('stale_member'):
                c = cp()
                c['steps'][i]['via'] = 'chain'
                yield c
        if st.get('minconf'):
            c = cp()
            del c['steps'][i]['minconf']
            yield c
        if st.get('kw'):
            c = cp()
            del c['steps'][i]['kw']
            yield c
        if st.get('prevalidate') is False:
            c = cp()
            del c['steps'][i]['prevalidate']
            yield c
        if st['op'] == 'bake' and st.get('n', 1) > 1:
            c = cp()
            c['steps'][i]['n'] = 1
            yield c
        if st['op'] == 'noise' and (st.get('n', 1) > 1 or st.get('where') != 'validated'):
            c = cp()
            c['steps'][i].update(n=1, where='validated')
            yield c
    cfg = scn['cfg']
    defaults = {'key': 'tz1', 'counter0': 10, 'baker': False, 'latency_ms': 0, 'chain_name': 'TEZOS_MAINNET', 'prebake': 1, 'bake_jitter_ms': [],
                'block_delay_s': 8, 'pending_pairs': False, 'watch_only': False}
    for k, v in defaults.items():
        if cfg.get(k) != v:
            c = cp()
            c['cfg'][k] = v
            yield c


def valid(scn):
    return bool(scn['steps'])
