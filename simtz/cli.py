"""/verif/check entry point.

  check <ID> [--tier quick|thorough] [--seed N] [--runs N] [--budget S]
  check replay <file>
  check one <ID> <seed> [--tier T]      run a single seed verbosely (prints the event log)
  check selftest-determinism [ID...]
  check selftest-mutants [ID...]
"""
import os
import sys

sys.path.insert(0, os.path.dirname(os.path.dirname(os.path.abspath(__file__))))

from simtz import boot  # noqa: E402

boot.pin_hashseed()
boot.setup_path()


def main(argv):
    import argparse
    import json

    if not argv:
        print(__doc__)
        return 2
    cmd = argv[0]
    if cmd == 'replay':
        boot.load_pytezos()
        from simtz import runner

        code, _ = runner.replay_file(argv[1])
        return code
    if cmd == 'one':
        boot.load_pytezos()
        from simtz import runner

        ap = argparse.ArgumentParser()
        ap.add_argument('pid')
        ap.add_argument('seed', type=int)
        ap.add_argument('--tier', default='quick')
        ap.add_argument('--scenario-only', action='store_true')
        a = ap.parse_args(argv[1:])
        mod = runner.load_prop(a.pid)
        scn = mod.gen(a.seed, a.tier)
        print(json.dumps(scn, indent=1, default=str))
        if a.scenario_only:
            return 0
        out = runner.run_one(mod, scn, want_log=True)
        if 'harness_error' in out:
            print(out['harness_error'])
            return 2
        for rec in out.get('log', []):
            print(json.dumps(rec, default=str)[:400])
        out.pop('log', None)
        print(json.dumps(out, indent=1, default=str))
        return 1 if out.get('violations') else 0
    if cmd == 'selftest-determinism':
        from simtz import selftest

        return selftest.determinism(argv[1:])
    if cmd == 'selftest-mutants':
        from simtz import selftest

        return selftest.mutants(argv[1:])
    if cmd == 'determinism-worker':
        from simtz import selftest

        return selftest.determinism_worker(argv[1:])

    ap = argparse.ArgumentParser()
    ap.add_argument('pid')
    ap.add_argument('--tier', default=os.environ.get('VERIF_TIER', 'quick'), choices=['quick', 'thorough'])
    ap.add_argument('--seed', type=int, default=None)
    ap.add_argument('--runs', type=int, default=None)
    ap.add_argument('--budget', type=float, default=None)
    ap.add_argument('--workers', type=int, default=None)
    ap.add_argument('--replay', default=None)
    a = ap.parse_args(argv)
    from simtz import runner

    if a.replay:
        boot.load_pytezos()
        code, _ = runner.replay_file(a.replay)
        return code
    if a.pid not in runner.PROPS:
        print(f'unknown property {a.pid}; claimed: {sorted(runner.PROPS)}')
        return 2
    return runner.run_check(a.pid, a.tier, base_seed=a.seed, budget_s=a.budget, workers=a.workers, runs=a.runs)


if __name__ == '__main__':
    try:
        rc = main(sys.argv[1:])
    except SystemExit:
        raise
    except BaseException:  # noqa: BLE001
        import traceback

        traceback.print_exc()
        print('HARNESS-FAILURE: uncaught exception in the check driver')
        rc = 2
    sys.stdout.flush()
    sys.exit(rc)
