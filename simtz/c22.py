"""C22 — A failing REPL cell leaves the session as if it never ran.

World `replsim`.  Session A executes every cell; some cells are made to fail after exactly k
of their instructions took effect (natural failing tails through the public API, and the
harness fault point on entry/exit of the j-th instruction execution).  Session B, a fresh
interpreter, executes only the cells that succeeded in A.  After every common cell the
public results must be equal; then both sessions execute the same probe suffix that turns
hidden context state (next temporary id, next allocated id, patched environment) into
observable results.
"""
import json
import os
import sys

from simtz import core
from simtz import replsim as rs
from simtz.runner import rng_for

ID = 'C22'
QUICK_RUNS = 1200
SHRINK_EXECS = 150
QUICK_BUDGET_S = 90
CHUNK = 25
CHUNK_TIMEOUT_S = 600
RULE = (
    'seed -> template-structured REPL session: declare a storage type with 0..3 big_maps, 1..3 rounds of (BEGIN or fresh EMPTY_BIG_MAPs, big_map '
    'UPDATE/GET/MEM/GET_AND_UPDATE cells, PAIR up, COMMIT or RUN) with neutral cells (arithmetic, DIP, ITER, LAMBDA/EXEC, set/map updates, PATCH, DUMP, '
    'EMPTY_BIG_MAP+DROP, BIG_MAP_DIFF) in between, and failing cells inserted: a prefix of k instructions of the next cell followed by a failing tail '
    '(FAILWITH, ill-typed ADD, pop from empty stack, unsorted map literal, syntax error, failure inside DIP/ITER/lambda, failing RUN/BEGIN/COMMIT), or '
    'the whole cell with a fault injected on entry/exit of its j-th instruction execution. Non-trivial = at least one cell failed in session A and at '
    'least one later cell or probe was compared; distinct = scenario digest.'
)
STATE_MEASURE = '(stack depth bucket at failure, big_maps on the stack at failure, storage shape, crash position class, failure mode)'
COMPONENTS = {
    'real': ['pytezos.michelson.repl.Interpreter.execute (backup/restore)', 'lazy big_map reads through ShellQuery/RpcNode against the simulated node', 'MichelsonParser / michelson_to_micheline', 'every Michelson instruction executed',
             'BigMapType (attach_context, update, get, duplicate/__deepcopy__, aggregate_lazy_diff)', 'ExecutionContext (big_map counters, patched environment)',
             'instructions.jupyter (BEGIN, COMMIT, RUN, PATCH, DUMP, DROP_ALL, BIG_MAP_DIFF)', 'MichelsonProgram (RUN)'],
    'stub': ['instruction-level fault point: harness wrapper around the `execute` classmethods (raises MichelsonRuntimeError on entry/exit)',
             'HTTP transport and the node\'s big_map store (ids 5, 6, 7)'],
}
ASSUMPTIONS = [
    'Only public results are compared: error flag, stdout, executed-instruction tree (incl. lazy_diff/result), rendered stack; hidden context state is '
    'observed through a probe suffix executed by both sessions, never through private attributes.',
    'DEBUG mode is excluded (it deliberately re-raises without restoring); RESET "<network>" is excluded (needs a network).',
    'Lazy-diff update lists are compared as sets keyed by key_hash (their order depends on hash seeds).',
    'The reference session runs in a child process forked before session A executes its first cell, so both sessions start from the same '
    'process state and nothing a failing cell leaks into process-global state can reach the reference.',
]
EXPECTED_PROBES = ['chain_moved_after_a_failed_cell', 'failed_deep_inside_recursive_lambda', 'failed_after_reset', 'cell_failed_on_node_error', 'failed_after_exec_of_context_changing_lambda', 'run_failed_inside_contract_code', 'failed_after_origination_or_sapling_index', 'failed_after_registering_chain_big_map', 'failed_after_alloc_tmp_id', 'failed_after_context_patch', 'commit_after_failure_two_big_maps', 'fault_injected_exit', 'fault_injected_entry',
                   'failure_inside_nested_block', 'failed_run_after_clear', 'failed_begin', 'failed_commit']

KV = 'int string'
# literals 5, 6, 7 are ids of big_maps that exist on the simulated node (lazy reads go through the RPC stack)
STORAGES = {
    'bm': ('big_map int string', ['{}', '{ Elt 1 "a" }', '{ Elt 1 "a" ; Elt 2 "b" }', '5', '6'], 1),
    'bm_bm': ('pair (big_map int string) (big_map int string)', ['(Pair {} {})', '(Pair { Elt 1 "a" } {})', '(Pair { Elt 1 "a" } { Elt 2 "b" })', '(Pair 5 6)', '(Pair 5 {})'], 2),
    'bm_int': ('pair (big_map int string) int', ['(Pair {} 0)', '(Pair { Elt 3 "c" } 7)', '(Pair 5 1)'], 1),
    # a timestamp next to the big_map: legal timestamps reach far beyond what a calendar date can show (year 10000 and later, before year 1)
    'bm_ts': ('pair (big_map int string) timestamp', ['(Pair {} 0)', '(Pair { Elt 3 "c" } 253402300800)', '(Pair 5 "2021-06-01T00:00:00Z")', '(Pair {} -62135596801)',
                                                      '(Pair 6 99999999999999)'], 1),
    'bm3': ('pair (big_map int string) (pair (big_map int string) (big_map int string))',
            ['(Pair {} (Pair {} {}))', '(Pair { Elt 1 "x" } (Pair {} { Elt 2 "y" }))', '(Pair 5 (Pair 6 {}))'], 3),
    'int': ('int', ['0', '5'], 0),
    # big_maps nested in a container value (legal Michelson: map values may be big_maps)
    'map_bm': ('map string (big_map int string)', ['{ Elt "a" {} }', '{ Elt "a" { Elt 1 "x" } ; Elt "b" {} }', '{ Elt "a" 5 ; Elt "b" { Elt 2 "y" } }'], 2),
    # a big_map passed in the parameter is registered as a copy of an on-chain big_map
    'pbm': ('big_map int string', ['{}', '5', '{ Elt 2 "s" }'], 1),
    # sapling states are bound to the context too (their ids come from its counters)
    'sap': ('pair (sapling_state 8) (sapling_state 8)', ['(Pair {} {})'], 0),
    # boolean parameter: the contract code fails for True (see COND_CODE)
    'bm_cond': ('big_map int string', ['{}', '{ Elt 1 "a" }', '6'], 1),
}
PARAMS = {'pbm': ('big_map int string', ['7', '{}', '6', '{ Elt 1 "p" }']), 'bm_cond': ('bool', ['False'])}
CHAIN_BIG_MAPS = {5: {1: 'five-1', 2: 'five-2'}, 6: {3: 'six-3'}, 7: {1: 'seven-1', 4: 'seven-4'}}
URI = 'http://node0.sim:8732'
CODE = 'code { CDR ; NIL operation ; PAIR }'
# code that fails when the parameter is True, after BEGIN/RUN attached (and numbered) the storage big_maps
COND_CODE = 'code { UNPAIR ; IF { EMPTY_BIG_MAP int string ; PUSH string "boom" ; PAIR ; FAILWITH } { NIL operation ; PAIR } }'
def rec_cell(depth, bottom):
    """Counts 0..depth through a recursive lambda and runs `bottom` at the deepest level (pytezos pushes the lambda itself on
    top of the argument)."""
    return ('PUSH int 0 ; LAMBDA_REC int int { SWAP ; DUP ; PUSH int %d ; IFCMPEQ { %s } { PUSH int 1 ; ADD ; EXEC } } ; SWAP ; EXEC'
            % (depth, bottom))


FAIL_TAILS = {
    'failwith': ['UNIT', 'FAILWITH'],
    'illtyped_add': ['PUSH int 1', 'PUSH string "x"', 'ADD'],
    'pop_empty': ['DROP_ALL', 'DROP'],
    'unsorted_map': ['PUSH (map int int) { Elt 2 1 ; Elt 1 1 }'],
    'syntax': ['PUSH int )'],
    'in_dip': ['PUSH int 0', 'DIP { UNIT ; FAILWITH }'],
    'in_iter': ['PUSH (list int) { 1 ; 2 }', 'ITER { DROP ; UNIT ; FAILWITH }'],
    'in_lambda': ['LAMBDA unit unit { FAILWITH }', 'UNIT', 'EXEC'],
    'in_if': ['PUSH bool True', 'IF { EMPTY_BIG_MAP int string ; FAILWITH } { }'],
    'in_loop': ['PUSH bool True', 'LOOP { SAPLING_EMPTY_STATE 8 ; DROP ; UNIT ; FAILWITH }'],
    'in_map': ['PUSH (list int) { 1 ; 2 ; 3 }', 'MAP { PUSH int 2 ; COMPARE ; EQ ; IF { UNIT ; FAILWITH } { EMPTY_BIG_MAP int string ; DROP ; PUSH int 0 } }'],
    'in_dip2': ['PUSH int 0', 'PUSH int 1', 'DIP 2 { EMPTY_BIG_MAP int string ; UNIT ; FAILWITH }'],
    'dig_short': ['DIG 7'],
    # primitives the interpreter does not implement: the cell fails after whatever it did before
    'unsupported_open_chest': ['EMPTY_BIG_MAP int string', 'DROP', 'PUSH int 100', 'OPEN_CHEST'],
    'unsupported_sapling_verify': ['PATCH AMOUNT 5', 'SAPLING_EMPTY_STATE 8', 'SAPLING_VERIFY_UPDATE'],
    'push_never': ['PATCH NOW 77', 'PUSH never 1'],
    # failures many lambda bodies deep
    'deep_rec_fail': [rec_cell(180, 'PUSH string "boom" ; FAILWITH')],
    'deep_rec_illtyped': [rec_cell(150, 'PUSH string "x" ; ADD')],
    'rec_too_deep': [rec_cell(300, 'SWAP ; DROP')],
    # RESET detaches the session from its node (or attaches another one) before the cell fails
    'reset_then_fail': ['RESET', 'UNIT', 'FAILWITH'],
    'reset_net_then_fail': ['RESET "sandbox"', 'UNIT', 'FAILWITH'],
    'run_fails_in_code': None,  # RUN whose contract code fails after the storage was attached (needs the conditional code below)
    'bad_run': ['RUN %default Unit "ill-typed"'],
    'bad_begin': ['BEGIN Unit "ill-typed"'],
    'bad_commit': ['PUSH int 1', 'COMMIT'],
    'alloc_then_fail': ['EMPTY_BIG_MAP int string', 'UNIT', 'FAILWITH'],
    'patch_then_fail': ['PATCH AMOUNT 777', 'PATCH NOW 4242', 'UNIT', 'FAILWITH'],
    'create_then_fail': ['PUSH int 0', 'PUSH mutez 0', 'NONE key_hash', 'CREATE_CONTRACT { parameter unit ; storage int ; code { CDR ; NIL operation ; PAIR } }', 'FAILWITH'],
    'sapling_then_fail': ['SAPLING_EMPTY_STATE 8', 'FAILWITH'],
    'begin_then_fail': None,  # filled per storage: BEGIN with a good literal, then FAILWITH
    'begin_ids_then_fail': None,  # BEGIN registering on-chain big_maps (storage and, where possible, parameter), then FAILWITH
}
NEUTRAL = [
    ['PUSH int 3', 'DROP'],
    ['DUMP'],
    ['EMPTY_BIG_MAP int string', 'DROP'],
    ['PUSH int 1', 'PUSH int 2', 'ADD', 'DROP'],
    ['EMPTY_SET int', 'PUSH bool True', 'PUSH int 3', 'UPDATE', 'DROP'],
    ['EMPTY_MAP int string', 'PUSH string "m"', 'SOME', 'PUSH int 1', 'UPDATE', 'DROP'],
    ['LAMBDA int int { PUSH int 1 ; ADD }', 'PUSH int 1', 'EXEC', 'DROP'],
    ['PUSH (list int) { 1 ; 2 }', 'ITER { DROP }'],
    ['PUSH int 9', 'DIP { PUSH int 1 ; DROP }', 'DROP'],
    ['PATCH AMOUNT 100'],
    ['PATCH NOW 12345'],
    ['PATCH AMOUNT'],
    ['EMPTY_BIG_MAP int string', 'PUSH string "t"', 'SOME', 'PUSH int 1', 'UPDATE', 'DROP'],
    ['EMPTY_BIG_MAP int string', 'BIG_MAP_DIFF', 'DROP'],
    ['PUSH int 0', 'PUSH mutez 0', 'NONE key_hash', 'CREATE_CONTRACT { parameter unit ; storage int ; code { CDR ; NIL operation ; PAIR } }', 'DROP', 'DROP'],
    ['SAPLING_EMPTY_STATE 8', 'DROP'],
    ['PATCH BALANCE 1000', 'PUSH nat 5', 'PUSH string "tk"', 'TICKET', 'DROP'],
    ['PATCH SENDER "tz1VSUr8wwNhLAzempoch5d6hLRiTh8Cjcjb"'],
    # instructions that ask the node (the sessions are attached to one): a node failure inside a cell is a failure of that cell
    ['PUSH int 4', 'BALANCE', 'DROP', 'DROP'],
    ['EMPTY_BIG_MAP int string', 'NOW', 'DROP', 'DROP'],
    ['PUSH int 1', 'LEVEL', 'DROP', 'DROP'],
]



# groups of consecutive cells that are stack-neutral as a whole: a lambda whose body changes the context (temporary big_map id,
# origination index, sapling index) is pushed by one cell, executed by later cells that do not name those primitives, then dropped
NEUTRAL_GROUPS = [
    [['LAMBDA unit unit { DROP ; EMPTY_BIG_MAP int string ; DROP ; UNIT }'], ['DUP', 'UNIT', 'EXEC', 'DROP'], ['DUP', 'UNIT', 'EXEC', 'DROP', 'PUSH int 1', 'DROP'], ['DROP']],
    [['LAMBDA unit address { DROP ; PUSH int 0 ; PUSH mutez 0 ; NONE key_hash ; CREATE_CONTRACT { parameter unit ; storage int ; code { CDR ; NIL operation ; PAIR } } ; DROP }'],
     ['DUP', 'UNIT', 'EXEC', 'DROP'], ['DROP']],
    [['LAMBDA unit unit { DROP ; SAPLING_EMPTY_STATE 8 ; DROP ; UNIT }'], ['PUSH int 5', 'DIP { DUP ; UNIT ; EXEC ; DROP }', 'DROP'], ['DROP']],
    [['PUSH int 1', 'PUSH int 2'], ['DIG 1', 'DROP'], ['DROP']],
    # values of an `or` type carry an internal "other branch is undefined" marker: they stay on the stack across (possibly failing) cells
    # and are compared / used as keys afterwards
    [['PUSH (or int string) (Left 1)'], ['DUP', 'PUSH (or int string) (Left 1)', 'COMPARE', 'DROP'], ['DUP', 'PUSH (or int string) (Right "a")', 'COMPARE', 'DROP'], ['DROP']],
    [['EMPTY_SET (or int string)', 'PUSH bool True', 'PUSH (or int string) (Right "a")', 'UPDATE'], ['DUP', 'PUSH (or int string) (Right "a")', 'MEM', 'DROP'],
     ['PUSH bool True', 'PUSH (or int string) (Right "a")', 'UPDATE', 'DUP', 'SIZE', 'DROP'], ['DROP']],
    [['EMPTY_BIG_MAP (or int string) string', 'PUSH string "v"', 'SOME', 'PUSH (or int string) (Left 1)', 'UPDATE'],
     ['PUSH string "w"', 'SOME', 'PUSH (or int string) (Left 1)', 'UPDATE'], ['DUP', 'PUSH (or int string) (Left 1)', 'GET', 'DROP'], ['DUP', 'BIG_MAP_DIFF', 'DROP'], ['DROP']],
    # legal deep recursions (the interpreter limits the depth to 256): they must still work after a failure deep inside one
    [[rec_cell(60, 'SWAP ; DROP')], ['DROP'], [rec_cell(110, 'SWAP ; DROP'), 'DROP']],
]


def bm_op(rng, tag):
    k = rng.randint(1, 4)
    v = f'{tag}{rng.randint(0, 99)}'
    c = rng.random()
    if c < 0.4:
        return [f'PUSH string "{v}"', 'SOME', f'PUSH int {k}', 'UPDATE']
    if c < 0.55:
        return ['NONE string', f'PUSH int {k}', 'UPDATE']
    if c < 0.7:
        return ['DUP', f'PUSH int {k}', 'GET', 'DROP']
    if c < 0.8:
        return ['DUP', f'PUSH int {k}', 'MEM', 'DROP']
    if c < 0.9:
        return [f'PUSH (option string) (Some "{v}")', f'PUSH int {k}', 'GET_AND_UPDATE', 'DROP']
    return ['DUP', 'BIG_MAP_DIFF', 'DROP']


def good_session(rng, tier):
    """A list of cells (each a list of instruction strings) designed to succeed."""
    shape = rng.choice(['bm', 'bm', 'bm_bm', 'bm_bm', 'bm_int', 'bm_ts', 'bm3', 'int', 'pbm', 'pbm', 'map_bm', 'map_bm', 'bm_cond', 'bm_cond', 'sap'])
    ty, lits, nbm = STORAGES[shape]
    pty, plits = PARAMS.get(shape, ('unit', ['Unit']))
    cells = [[f'parameter ({pty}) ; storage ({ty}) ; {COND_CODE if shape == "bm_cond" else CODE}']]
    rounds = rng.choice([1, 2, 2, 3]) if rng.random() > (0.15 if tier == 'thorough' else 0.03) else rng.choice([5, 8])
    for rd in range(rounds):
        tag = 'abcdefghij'[rd % 10]
        body = []
        fresh = (nbm > 0 and rng.random() < 0.45) or (shape == 'sap' and rng.random() < 0.6)
        if rng.random() < 0.2 and rd > 0:
            cells.append([f'RUN %default {rng.choice(plits)} {rng.choice(lits)}'])
        if fresh:
            if shape in ('bm', 'pbm', 'bm_cond'):
                body.append(['EMPTY_BIG_MAP int string'])
                for _ in range(rng.randint(0, 3)):
                    body.append(bm_op(rng, tag))
            elif shape == 'bm_bm':
                body.append(['EMPTY_BIG_MAP int string'])
                for _ in range(rng.randint(0, 2)):
                    body.append(bm_op(rng, tag))
                body.append(['EMPTY_BIG_MAP int string'])
                for _ in range(rng.randint(0, 2)):
                    body.append(bm_op(rng, tag))
                body.append(['PAIR'])
            elif shape in ('bm_int', 'bm_ts'):
                body.append(['PUSH int 4'] if shape == 'bm_int' else [f'PUSH timestamp {rng.choice([0, 1700000000, 253402300800, -62135596801, 99999999999999])}'])
                body.append(['EMPTY_BIG_MAP int string'])
                for _ in range(rng.randint(0, 3)):
                    body.append(bm_op(rng, tag))
                body.append(['PAIR'])
            elif shape == 'sap':
                body.append(['SAPLING_EMPTY_STATE 8'])
                if rng.random() < 0.5:
                    body.append(['PUSH int 1', 'DROP'])
                body.append(['SAPLING_EMPTY_STATE 8'])
                body.append(['PAIR'])
            elif shape == 'map_bm':
                body.append(['EMPTY_MAP string (big_map int string)'])
                for name in ('a', 'b')[: rng.randint(1, 2)]:
                    body.append(['EMPTY_BIG_MAP int string'])
                    for _ in range(rng.randint(0, 2)):
                        body.append(bm_op(rng, tag))
                    body.append(['SOME', f'PUSH string "{name}"', 'UPDATE'])
            elif shape == 'bm3':
                for i in range(3):
                    body.append(['EMPTY_BIG_MAP int string'])
                    for _ in range(rng.randint(0, 2)):
                        body.append(bm_op(rng, tag))
                body.append(['SWAP', 'PAIR', 'SWAP', 'PAIR'])
        else:
            body.append([f'BEGIN {rng.choice(plits)} {rng.choice(lits)}'])
            body.append(['CAR' if (shape == 'pbm' and rng.random() < 0.4) else 'CDR'])
            if shape in ('bm', 'pbm', 'bm_cond'):
                for _ in range(rng.randint(0, 4)):
                    body.append(bm_op(rng, tag))
            elif shape == 'bm_bm':
                body.append(['UNPAIR'])
                for _ in range(rng.randint(0, 2)):
                    body.append(bm_op(rng, tag))
                body.append(['SWAP'])
                for _ in range(rng.randint(0, 2)):
                    body.append(bm_op(rng, tag))
                body.append(['SWAP', 'PAIR'])
            elif shape in ('bm_int', 'bm_ts'):
                body.append(['UNPAIR'])
                for _ in range(rng.randint(0, 3)):
                    body.append(bm_op(rng, tag))
                body.append(['PAIR'])
            elif shape == 'bm3':
                body.append(['UNPAIR'])
                for _ in range(rng.randint(0, 2)):
                    body.append(bm_op(rng, tag))
                body.append(['DIP { UNPAIR ; ' + ' ; '.join(bm_op(rng, tag)) + ' ; PAIR }'])
                body.append(['PAIR'])
            elif shape == 'map_bm':
                for _ in range(rng.randint(0, 2)):
                    body.append(['DUP', 'PUSH string "a"', 'GET', 'ASSERT_SOME'])
                    for _ in range(rng.randint(0, 2)):
                        body.append(bm_op(rng, tag))
                    body.append(['SOME', 'PUSH string "a"', 'UPDATE'])
            elif shape == 'int':
                body.append(['PUSH int 1', 'ADD'])
        body.append(['NIL operation', 'PAIR'])
        body.append(['COMMIT'])
        # merge some adjacent cells, insert neutral cells
        merged = []
        for c in body:
            if merged and rng.random() < 0.3:
                merged[-1] = merged[-1] + c
            else:
                merged.append(list(c))
        for c in merged:
            if rng.random() < 0.25:
                cells.append(list(rng.choice(NEUTRAL)))
            elif rng.random() < 0.12:
                cells.extend([list(x) for x in rng.choice(NEUTRAL_GROUPS)])
            cells.append(c)
    return shape, cells


def gen(seed, tier):
    rng = rng_for(seed, 22)
    shape, cells = good_session(rng, tier)
    ty, lits, nbm = STORAGES[shape]
    pty, plits = PARAMS.get(shape, ('unit', ['Unit']))
    p_fail = rng.choice([0.1, 0.25, 0.4])
    p_rpc_fault = rng.choice([0.0, 0.0, 0.1, 0.3])
    modes = [m for m in ('prefix', 'inject') if rng.random() < 0.7] or ['prefix']
    tails = [t for t in sorted(FAIL_TAILS) if rng.random() < 0.5] or ['failwith']
    steps = []
    for ci, cell in enumerate(cells):
        nfail = 0
        while ci > 0 and nfail < 3 and rng.random() < (p_fail if nfail == 0 else 0.35):
            nfail += 1
            mode = rng.choice(modes)
            if mode == 'prefix':
                src = cell if rng.random() < 0.7 else list(rng.choice(NEUTRAL))
                k = rng.randint(0, len(src))
                tname = rng.choice(tails)
                tail = FAIL_TAILS[tname]
                if tail is None and tname == 'run_fails_in_code':
                    tail = [f'RUN %default True {rng.choice(lits)}'] if shape == 'bm_cond' else ['UNIT', 'FAILWITH']
                elif tail is None and tname == 'begin_then_fail':
                    tail = [f'BEGIN {plits[0]} {lits[0]}', 'UNIT', 'FAILWITH']
                elif tail is None:
                    idlits = [x for x in lits if any(ch.isdigit() for ch in x) and 'Elt' not in x and x not in ('0',)] or lits
                    tail = [f'BEGIN {plits[0]} {rng.choice(idlits)}', 'UNIT', 'FAILWITH']
                steps.append({'instrs': src[:k] + tail, 'plan': {'mode': 'prefix', 'k': k, 'tail': tname}})
            else:
                src = cell if rng.random() < 0.8 else list(rng.choice(NEUTRAL))
                j = rng.randint(1, len(src) + 2)
                steps.append({'instrs': list(src), 'plan': {'mode': 'inject', 'ordinal': j, 'when': rng.choice(['entry', 'exit', 'exit'])}})
        good = {'instrs': list(cell)}
        if rng.random() < p_rpc_fault:
            # a definitive node failure on the k-th request issued while this cell runs (if it issues that many)
            good['rpc_fault'] = {'at': rng.choice([1, 1, 2, 3]), 'how': rng.choice(['perm', 'perm', 'exc', 'cap'])}
        steps.append(good)
    if rng.random() < 0.2:
        # the chain moves on while the session is open: an entry of an on-chain big_map changes (and a block is baked) between two cells
        for _ in range(rng.choice([1, 1, 2, 3])):
            bm = rng.choice(sorted(CHAIN_BIG_MAPS))
            env = {'env': {'bm': bm, 'key': rng.choice(sorted(CHAIN_BIG_MAPS[bm]) + [rng.randint(1, 4)]), 'value': rng.choice([None, 'moved-%d' % rng.randint(0, 99)])}}
            steps.insert(rng.randint(1, len(steps)), env)
    return {'prop': ID, 'shape': shape, 'steps': steps}


PROBE_TYPE = 'pair (big_map int string) (big_map int string)'
PROBE = [
    'EMPTY_BIG_MAP int string',
    'DROP',
    'DUMP',
    'DROP_ALL',
    rec_cell(110, 'SWAP ; DROP'),
    'DROP_ALL',
    'AMOUNT',
    'NOW',
    'SENDER',
    'SOURCE',
    'BALANCE',
    'DROP_ALL',
    f'parameter unit ; storage ({PROBE_TYPE}) ; {CODE}',
    'BEGIN Unit (Pair {} { Elt 1 "p" })',
    'CDR ; UNPAIR ; PUSH string "q" ; SOME ; PUSH int 2 ; UPDATE ; PAIR ; NIL operation ; PAIR ; COMMIT',
    'EMPTY_BIG_MAP int string ; EMPTY_BIG_MAP int string ; PAIR ; NIL operation ; PAIR ; COMMIT',
    'DUMP',
    'PUSH int 0 ; PUSH mutez 0 ; NONE key_hash ; CREATE_CONTRACT { parameter unit ; storage int ; code { CDR ; NIL operation ; PAIR } } ; DROP',
    'SAPLING_EMPTY_STATE 8',
    'DROP_ALL',
    'BEGIN Unit (Pair 5 7)',
    'CDR ; UNPAIR ; DUP ; PUSH int 1 ; GET ; DROP ; PUSH string "r" ; SOME ; PUSH int 9 ; UPDATE ; PAIR ; NIL operation ; PAIR ; COMMIT',
]


def cell_text(instrs):
    return ' ; '.join(instrs)


class _World:
    """Simulated node + transport + seams for one session run (each process builds its own)."""

    def __init__(self):
        from pytezos.rpc.node import RpcNode
        from pytezos.rpc.shell import ShellQuery

        from simtz import c15
        from simtz import nodesim

        rs.install_fault_points()
        self.sim = sim = core.Sim()
        self.node = node = nodesim.SimNode(sim, {'logical_timestamps': True})
        node.bake(2)
        for bm, content in CHAIN_BIG_MAPS.items():
            node.big_maps[bm] = {c15.key_hash('int', k): {'string': v} for k, v in content.items()}
        node.contracts['KT1BEqzn5Wx8uJrZNvuS9DVHmLvG9td3fDLi'] = {'code': [], 'storage': {'prim': 'Unit'}}  # the REPL's default self address (BALANCE)
        self.tr = tr = core.Transport(sim, node.handle, max_requests=5000)
        self.cellf = cellf = {'first': 0, 'fault': None}

        def fault_for(req):
            f = cellf['fault']
            if f and req['i'] - cellf['first'] == f['at']:
                cellf['fault'] = None
                return {'perm': {'f': 'reject', 'how': 'perm'}, 'exc': {'f': 'reject', 'how': 'exc'}, 'cap': {'f': 'transient', 'n': 6, 'status': 503}}[f['how']]
            return None

        tr.fault_for = fault_for
        self.make_shell = lambda: ShellQuery(RpcNode(URI))
        self.seams = core.Seams(sim, tr)

    def apply_env(self, env):
        """The chain moves on between two cells: one entry of an on-chain big_map is set / removed, a block is baked."""
        from simtz import c15

        store = self.node.big_maps.setdefault(env['bm'], {})
        kh = c15.key_hash('int', env['key'])
        if env.get('value') is None:
            store.pop(kh, None)
        else:
            store[kh] = {'string': env['value']}
        self.node.bake(1)

    def run(self, interp, st, fault=None):
        """One cell with its scheduled node fault armed; returns (result, executed count, fired, rpc fault fired)."""
        self.cellf['first'], self.cellf['fault'] = self.tr.attempts, (dict(st['rpc_fault']) if st.get('rpc_fault') else None)
        res, count, fired = rs.run_cell(interp, cell_text(st['instrs']), fault)
        rpc_fired = bool(st.get('rpc_fault')) and self.cellf['fault'] is None
        self.cellf['fault'] = None
        return res, count, fired, rpc_fired


def execute(scn, want_log=False):
    from pytezos.michelson.repl import Interpreter

    ref = _reference_process()  # forked before this process has executed any cell of this scenario
    w = _World()
    w.seams.install()
    try:
        return _execute(scn, want_log, Interpreter, w, ref)
    finally:
        w.seams.uninstall()


# ---------------------------------------------------------------------------------
# the reference session lives in a sibling process
# ---------------------------------------------------------------------------------
_REF = {'owner': None, 'pid': None, 'w': None, 'r': None}


def _read_exact(fd, n):
    chunks = []
    while n:
        buf = os.read(fd, min(n, 1 << 16))
        if not buf:
            return None
        chunks.append(buf)
        n -= len(buf)
    return b''.join(chunks)


def _send(fd, obj):
    data = json.dumps(obj, default=str).encode()
    data = len(data).to_bytes(8, 'big') + data
    while data:
        n = os.write(fd, data)
        data = data[n:]


def _recv(fd):
    head = _read_exact(fd, 8)
    if head is None:
        return None
    body = _read_exact(fd, int.from_bytes(head, 'big'))
    return None if body is None else json.loads(body.decode())


def _reference_process():
    """The process that runs the reference sessions (session B: the same cells without the failing ones).

    It is forked from this process the first time a scenario is executed here, before any cell has run, and it never runs a
    failing cell.  Whatever a failing cell of session A leaks into process-global state (class attributes, module-level
    caches, the interpreter class itself) therefore cannot reach the reference, while both sides accumulate the same
    history of *successful* cells from scenario to scenario."""
    me = os.getpid()
    if _REF['owner'] == me and _REF['pid'] is not None:
        return _REF
    if _REF['owner'] is not None and _REF['owner'] != me:
        for k in ('w', 'r'):  # handles inherited from the process we were forked from
            try:
                os.close(_REF[k])
            except OSError:
                pass
    r_cmd, w_cmd = os.pipe()
    r_res, w_res = os.pipe()
    sys.stdout.flush()
    sys.stderr.flush()
    pid = os.fork()
    if pid == 0:
        try:
            keep = {0, 1, 2, r_cmd, w_res}
            for name in os.listdir('/proc/self/fd'):
                fd = int(name)
                if fd not in keep:
                    try:
                        os.close(fd)
                    except OSError:
                        pass
            _reference_main(r_cmd, w_res)
        finally:
            os._exit(0)
    os.close(r_cmd)
    os.close(w_res)
    _REF.update(owner=me, pid=pid, w=w_cmd, r=r_res)
    return _REF


def _reference_main(r_cmd, w_res):
    import signal
    import traceback

    from pytezos.michelson.repl import Interpreter

    # (the owner's faulthandler watchdog thread does not exist here and its locks must not be touched: SIGALRM bounds a request)
    signal.signal(signal.SIGALRM, signal.SIG_DFL)
    while True:
        req = _recv(r_cmd)
        if req is None:
            return  # the owner is gone
        signal.alarm(600)
        try:
            out = _reference_session(req['scn'], req['cells'], Interpreter)
        except BaseException as e:  # noqa: BLE001
            out = {'child_error': ''.join(traceback.format_exception(type(e), e, e.__traceback__))[-2000:]}
        signal.alarm(0)
        _send(w_res, out)


def _reference_session(scn, cells, Interpreter):
    w = _World()
    w.seams.install()
    try:
        b = Interpreter()
        b.context.shell = w.make_shell()
        renders = {}
        for i in cells:
            st = scn['steps'][i]
            if st.get('env'):
                w.apply_env(st['env'])
                continue
            plan = st.get('plan') or {}
            fault = {'ordinal': plan['ordinal'], 'when': plan['when']} if plan.get('mode') == 'inject' else None
            res_b = w.run(b, st, fault)[0]
            renders[str(i)] = rs.render_result(res_b)
        probes = [rs.render_result(rs.run_cell(b, text)[0]) for text in PROBE]
        return {'cells': renders, 'probes': probes, 'unmodelled': dict(w.node.unmodelled)}
    finally:
        w.seams.uninstall()


def _ask_reference(ref, scn, cells):
    try:
        _send(ref['w'], {'scn': {'shape': scn['shape'], 'steps': scn['steps']}, 'cells': cells})
        out = _recv(ref['r'])
    except OSError as e:
        out = None
        err = repr(e)
    else:
        err = 'pipe closed'
    if out is None:
        try:
            os.waitpid(ref['pid'], os.WNOHANG)
        except OSError:
            pass
        _REF.update(owner=None, pid=None)
        raise core.HarnessError('reference session process died: ' + err)
    if 'child_error' in out:
        raise core.HarnessError('reference session process failed: ' + out['child_error'])
    return out


def _execute(scn, want_log, Interpreter, w, ref):
    log = []
    violations = []
    probes = {}
    states = set()
    faults = {}

    def bump(d, k):
        d[k] = d.get(k, 0) + 1

    sim, node = w.sim, w.node
    a = Interpreter()
    a.context.shell = w.make_shell()
    failed_any = False
    last_fail_at = {}
    last_fail = None
    failed_in_round = False
    renders_a = {}
    succeeded = []
    for i, st in enumerate(scn['steps']):
        if st.get('env'):
            w.apply_env(st['env'])
            succeeded.append(i)
            if failed_any:
                bump(probes, 'chain_moved_after_a_failed_cell')
            continue
        text = cell_text(st['instrs'])
        plan = st.get('plan') or {}
        fault = {'ordinal': plan['ordinal'], 'when': plan['when']} if plan.get('mode') == 'inject' else None
        depth_before = len(a.stack.items)
        bms_before = sum(1 for x in a.stack.items if 'big_map' in json.dumps(rs.render_item(x).get('type')))
        res_a, count, fired, rpc_fired = w.run(a, st, fault)
        ra = rs.render_result(res_a)
        log.append({'i': i, 'cell': text, 'plan': plan or None, 'a_error': ra['error'], 'executed': count, 'fired': fired})
        if res_a.error is not None:
            failed_any = True
            failed_in_round = True
            mode = plan.get('mode', 'unplanned')
            last_fail = mode if mode != 'inject' else f'inject-{plan["when"]}'
            bump(faults, 'cell_failed:' + (mode if mode != 'inject' else ('inject-' + plan['when'] if fired else 'inject-natural')))
            if fired:
                bump(probes, 'fault_injected_' + fired[1])
            if 'EMPTY_BIG_MAP' in text:
                bump(probes, 'failed_after_alloc_tmp_id')
            if rpc_fired:
                bump(probes, 'cell_failed_on_node_error')
                if isinstance(res_a, rs.EscapedFailure):
                    bump(probes, 'failure_escaped_execute')
            if 'PATCH' in text:
                bump(probes, 'failed_after_context_patch')
            if 'EXEC' in text and 'LAMBDA' not in text:
                bump(probes, 'failed_after_exec_of_context_changing_lambda')
            if 'LAMBDA_REC' in text:
                bump(probes, 'failed_deep_inside_recursive_lambda')
            if 'RESET' in text:
                bump(probes, 'failed_after_reset')
            if 'CREATE_CONTRACT' in text or 'SAPLING_EMPTY_STATE' in text:
                bump(probes, 'failed_after_origination_or_sapling_index')
            if any(tok in text for tok in ('DIP {', 'DIP 2 {', 'ITER {', 'LAMBDA', 'IF {', 'LOOP {', 'MAP {')):
                bump(probes, 'failure_inside_nested_block')
            if 'RUN %default' in text:
                bump(probes, 'failed_run_after_clear')
                if 'RUN %default True' in text:
                    bump(probes, 'run_failed_inside_contract_code')
            if 'BEGIN ' in text:
                bump(probes, 'failed_begin')
                if any(f'BEGIN {pl} ' in text for pl in ('7', '6')) or any(tok in text for tok in (' 5 ;', ' 6 ;', '(Pair 5', ' 5) ;')):
                    bump(probes, 'failed_after_registering_chain_big_map')
            if 'COMMIT' in text:
                bump(probes, 'failed_commit')
            pos = 'k0' if plan.get('k') == 0 else ('end' if plan.get('k') == len(st['instrs']) else 'mid')
            states.add(f'd{min(depth_before, 3)}/bm{min(bms_before, 3)}/{scn["shape"]}/{pos}/{last_fail}/{plan.get("tail", "-")}')
            continue
        succeeded.append(i)
        renders_a[i] = ra
        last_fail_at[i] = last_fail
        if 'COMMIT' in text and failed_in_round:
            if json.dumps(ra['instr']).count('"action"') >= 2:
                bump(probes, 'commit_after_failure_two_big_maps')
            failed_in_round = False
    probes_a = []
    for text in PROBE:
        res_a, _, _ = rs.run_cell(a, text)
        probes_a.append(rs.render_result(res_a))

    # hand the list of surviving cells to the reference session and collect what it observed
    ref = _ask_reference(ref, scn, succeeded)

    compared = 0
    first_failed_index = next((e['i'] for e in log if e.get('a_error')), None)
    for i in succeeded:
        if scn['steps'][i].get('env'):
            continue
        ra, rb = renders_a[i], json.loads(json.dumps(ref['cells'][str(i)]))
        ra = json.loads(json.dumps(ra, default=str))
        if first_failed_index is not None and i > first_failed_index:
            compared += 1
        if ra != rb:
            d = rs.first_diff(ra, rb)
            field = d[0].split('/')[1] if d and d[0] else '?'
            sub = 'lazy_diff' if d and 'lazy_diff' in d[0] else ('result' if d and '/result' in d[0] else field)
            violations.append({'kind': 'diverge', 'sig': f'C22/diverge:cell:{sub}:after={last_fail_at[i]}',
                               'detail': {'cell_index': i, 'cell': cell_text(scn['steps'][i]['instrs']), 'path': d[0] if d else None,
                                          'with_failures': d[1] if d else None, 'without': d[2] if d else None}})
            for e in log:
                if e.get('i') == i:
                    e['diverged'] = True
            break
    if not violations:
        for pi, text in enumerate(PROBE):
            ra, rb = json.loads(json.dumps(probes_a[pi], default=str)), ref['probes'][pi]
            log.append({'probe': pi, 'cell': text, 'a_error': ra['error'], 'b_error': rb['error'], 'a_stdout': ra['stdout'][-2:]})
            if failed_any:
                compared += 1
            if ra != rb:
                d = rs.first_diff(ra, rb)
                field = d[0].split('/')[1] if d and d[0] else '?'
                sub = 'lazy_diff' if d and 'lazy_diff' in d[0] else ('result' if d and '/result' in d[0] else field)
                violations.append({'kind': 'diverge', 'sig': f'C22/diverge:probe:{sub}:after={last_fail}',
                                   'detail': {'probe_index': pi, 'cell': text, 'path': d[0] if d else None, 'with_failures': d[1] if d else None, 'without': d[2] if d else None}})
                break
    import hashlib

    digest = hashlib.sha256(json.dumps(log, sort_keys=True, default=str).encode()).hexdigest()
    out = {
        'violations': violations,
        'judged': compared if failed_any else 0,
        'faults': faults,
        'probes': probes,
        'states': sorted(states),
        'seqs': [],
        'virtual_ms': sim.now_ms,
        'unmodelled': dict(node.unmodelled),
        'digest': digest,
        'summary': {'cells': len(scn['steps']), 'failed_cells': sum(1 for e in log if e.get('a_error') and 'probe' not in e), 'compared_after_failure': compared,
                    'shape': scn['shape']},
    }
    if want_log:
        out['log'] = log
    return out


def simplify(scn):
    def cp():
        return json.loads(json.dumps(scn))

    for i, st in enumerate(scn['steps']):
        if st.get('env'):
            continue
        if len(st['instrs']) > 1 and not st.get('plan'):
            # split a merged cell in two (keeps semantics, makes later removal possible)
            c = cp()
            mid = len(st['instrs']) // 2
            c['steps'][i : i + 1] = [{'instrs': st['instrs'][:mid]}, {'instrs': st['instrs'][mid:]}]
            yield c
        if st.get('plan', {}).get('mode') == 'prefix' and st['plan']['k'] > 0:
            c = cp()
            k = st['plan']['k']
            c['steps'][i]['instrs'] = st['instrs'][k:]
            c['steps'][i]['plan']['k'] = 0
            yield c
        if st.get('rpc_fault'):
            c = cp()
            del c['steps'][i]['rpc_fault']
            yield c
        if st.get('plan', {}).get('mode') == 'inject':
            c = cp()
            c['steps'][i] = {'instrs': st['instrs'][:] + ['UNIT', 'FAILWITH'], 'plan': {'mode': 'prefix', 'k': len(st['instrs']), 'tail': 'failwith'}}
            yield c
            if st['plan']['ordinal'] > 1:
                c = cp()
                c['steps'][i]['plan']['ordinal'] = 1
                yield c


def valid(scn):
    return bool(scn['steps'])
