"""simtz — deterministic simulation with fault injection for pytezos.

See /verif/DESIGN.md.  Import `simtz.boot` before anything from pytezos so that the
working tree under /repo (or $VERIF_REPO) is the code under test.
"""
