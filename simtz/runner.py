"""Seeded search driver: seed -> scenario -> execution -> oracle; parallel batches,
ddmin shrinking, replay files verified in a fresh interpreter, known-finding
classification, evidence.

Exit protocol: 0 held (possibly with KNOWN-FINDING lines); 1 at least one unlisted
violation (`VIOLATION property=<id> replay=<path>`); 2 harness failure.
"""
import copy
import faulthandler
import hashlib
import importlib
import json
import multiprocessing
import os
import random
import subprocess
import sys
import time
import traceback
from collections import Counter
from concurrent.futures import ProcessPoolExecutor
from concurrent.futures import TimeoutError as FutTimeout
from concurrent.futures.process import BrokenProcessPool

from simtz import boot

MASK = (1 << 64) - 1

PROPS = {
    'C26': 'simtz.c26',
    'C28': 'simtz.c28',
    'C29': 'simtz.c29',
    'C25': 'simtz.c25',
    'C24': 'simtz.c24',
    'C22': 'simtz.c22',
    'C15': 'simtz.c15',
}


def splitmix64(x):
    x = (x + 0x9E3779B97F4A7C15) & MASK
    z = x
    z = ((z ^ (z >> 30)) * 0xBF58476D1CE4E5B9) & MASK
    z = ((z ^ (z >> 27)) * 0x94D049BB133111EB) & MASK
    return z ^ (z >> 31)


def rng_for(seed, salt=0):
    return random.Random(splitmix64(splitmix64(seed) ^ salt))


def canon(obj):
    return json.dumps(obj, sort_keys=True, separators=(',', ':'), default=str)


def scenario_digest(scn):
    return hashlib.sha256(canon(scn).encode()).hexdigest()[:20]


def load_prop(pid):
    return importlib.import_module(PROPS[pid])


# ---------------------------------------------------------------------------------
# one run
# ---------------------------------------------------------------------------------


def run_one(mod, scenario, want_log=False):
    """Execute a scenario; harness exceptions are classified apart from violations."""
    from simtz import core

    try:
        out = mod.execute(copy.deepcopy(scenario), want_log=want_log)
    except (Exception, core.HarnessError, core.SimCapExceeded) as e:  # noqa: BLE001
        return {'harness_error': ''.join(traceback.format_exception(type(e), e, e.__traceback__))[-4000:]}
    return out


def _worker_chunk(args):
    pid, tier, seeds, per_chunk_timeout = args
    faulthandler.dump_traceback_later(per_chunk_timeout, exit=True)
    try:
        mod = load_prop(pid)
        agg = new_agg()
        for idx, seed in enumerate(seeds):
            scn = mod.gen(seed, tier)
            out = run_one(mod, scn)
            before = len(agg['violations'])
            merge_run(agg, seed, scn, out)
            for k in range(before, len(agg['violations'])):
                # what this process executed before the failing run (the chunk starts from a clean image)
                sd, sc, v = agg['violations'][k]
                agg['violations'][k] = (sd, sc, dict(v, _history=seeds[:idx]))
            if agg['samples'] and 'events' not in agg['samples'][0] and agg['samples'][0]['seed'] == seed:
                # one sample per chunk carries the head of its event log (re-executed with logging on)
                logged = run_one(mod, scn, want_log=True)
                agg['samples'][0]['events'] = json.loads(json.dumps((logged.get('log') or [])[:40], default=str))
                agg['samples'][0]['event_log_digest'] = logged.get('digest')
        return freeze_agg(agg)
    finally:
        faulthandler.cancel_dump_traceback_later()


def _chunk_main(conn, args):
    """Body of a per-chunk process: run the chunk, send the aggregate (or the exception) back."""
    try:
        part = _worker_chunk(args)
    except BaseException as e:  # noqa: BLE001
        part = {'worker_exception': ''.join(traceback.format_exception(type(e), e, e.__traceback__))[-3000:]}
    try:
        conn.send(part)
    finally:
        conn.close()
    os._exit(0)


def new_agg():
    return {
        'evaluations': 0,
        'judged_events': 0,
        'nontrivial': set(),
        'faults': Counter(),
        'probes': Counter(),
        'info': Counter(),
        'states': set(),
        'seqs': set(),
        'virtual_ms': 0,
        'unmodelled': Counter(),
        'violations': [],  # (seed, scenario, violation)
        'sig_counts': {},
        'harness_errors': [],
        'samples': [],
        'first_seed': None,
        'last_seed': None,
        'log_digests': {},
    }


def merge_run(agg, seed, scn, out):
    agg['evaluations'] += 1
    if agg['first_seed'] is None:
        agg['first_seed'] = seed
    agg['last_seed'] = seed
    if 'harness_error' in out:
        agg['harness_errors'].append((seed, out['harness_error']))
        return
    agg['judged_events'] += out.get('judged', 0)
    if out.get('judged', 0) > 0:
        agg['nontrivial'].add(scenario_digest(scn))
    agg['faults'].update(out.get('faults', {}))
    agg['probes'].update(out.get('probes', {}))
    agg['info'].update(out.get('info', {}))
    agg['states'].update(out.get('states', ()))
    agg['seqs'].update(out.get('seqs', ()))
    agg['virtual_ms'] += out.get('virtual_ms', 0)
    agg['unmodelled'].update(out.get('unmodelled', {}))
    agg['log_digests'][seed] = out.get('digest')
    for v in out.get('violations', []):
        agg['sig_counts'][v['sig']] = agg['sig_counts'].get(v['sig'], 0) + 1
        if agg['sig_counts'][v['sig']] <= 5:  # keep a few cases per signature (smallest is shrunk)
            agg['violations'].append((seed, scn, v))
    if len(agg['samples']) < 2 and out.get('judged', 0) > 0 and not out.get('violations'):
        agg['samples'].append({'seed': seed, 'scenario': scn, 'summary': out.get('summary')})


def freeze_agg(agg):
    agg = dict(agg)
    for k in ('nontrivial', 'states', 'seqs'):
        agg[k] = sorted(agg[k])
    for k in ('faults', 'probes', 'info', 'unmodelled'):
        agg[k] = dict(agg[k])
    return agg


def merge_agg(total, part):
    total['evaluations'] += part['evaluations']
    total['judged_events'] += part['judged_events']
    total['nontrivial'].update(part['nontrivial'])
    for k in ('faults', 'probes', 'info', 'unmodelled'):
        total[k].update(part[k])
    total['states'].update(part['states'])
    total['seqs'].update(part['seqs'])
    total['virtual_ms'] += part['virtual_ms']
    total['violations'].extend(part['violations'])
    for k, v in part['sig_counts'].items():
        total['sig_counts'][k] = total['sig_counts'].get(k, 0) + v
    total['harness_errors'].extend(part['harness_errors'])
    for s in part['samples']:
        if len(total['samples']) < 3:
            total['samples'].append(s)
    if total['first_seed'] is None:
        total['first_seed'] = part['first_seed']
    if part['last_seed'] is not None:
        total['last_seed'] = part['last_seed']
    total['log_digests'].update(part['log_digests'])


# ---------------------------------------------------------------------------------
# shrinking
# ---------------------------------------------------------------------------------


def _has_sig(mod, scn, sig):
    if hasattr(mod, 'valid') and not mod.valid(scn):
        return None
    out = run_one(mod, scn)
    if 'harness_error' in out:
        return None
    for v in out.get('violations', []):
        if v['sig'] == sig:
            return v
    return None


def shrink(mod, scenario, sig, max_exec=400, deadline=None):
    """Delta debugging over scenario['steps'], then property-specific simplifications.
    A candidate is kept only if it is still valid and the *same signature* recurs."""
    budget = [max_exec]
    best = copy.deepcopy(scenario)

    def test(c):
        if deadline is not None and time.time() > deadline:
            budget[0] = 0
        if budget[0] <= 0:
            return False
        budget[0] -= 1
        return _has_sig(mod, c, sig) is not None

    steps_key = getattr(mod, 'STEPS_KEY', 'steps')
    # ddmin on the step list
    n = 2
    while budget[0] > 0 and len(best.get(steps_key, [])) >= 2:
        steps = best[steps_key]
        chunk = max(1, len(steps) // n)
        reduced = False
        for start in range(0, len(steps), chunk):
            cand = copy.deepcopy(best)
            cand[steps_key] = steps[:start] + steps[start + chunk :]
            if hasattr(mod, 'renumber'):
                cand = mod.renumber(cand)
            if cand[steps_key] and test(cand):
                best = cand
                n = max(n - 1, 2)
                reduced = True
                break
        if not reduced:
            if chunk == 1:
                break
            n = min(len(steps), n * 2)
    # single-step removal for a list of length 1..: try empty-tolerant removal
    # property-specific simplification to a fixpoint
    if hasattr(mod, 'simplify'):
        progress = True
        while progress and budget[0] > 0:
            progress = False
            for cand in mod.simplify(copy.deepcopy(best)):
                if budget[0] <= 0:
                    break
                if canon(cand) == canon(best):
                    continue
                if test(cand):
                    best = cand
                    progress = True
                    break
    return best, max_exec - budget[0]


# ---------------------------------------------------------------------------------
# known findings
# ---------------------------------------------------------------------------------


def load_known(pid):
    path = os.path.join(boot.VERIF, 'known_findings.json')
    if not os.path.exists(path):
        return []
    with open(path) as f:
        data = json.load(f)
    return [e for e in data.get('findings', []) if e.get('property') == pid and e.get('status') == 'known']


def match_known(known, sig):
    for e in known:
        if e['signature'] == sig:
            return e
    return None


# ---------------------------------------------------------------------------------
# replay
# ---------------------------------------------------------------------------------


def write_replay(pid, seed, scenario, violation, out, preamble=None):
    d = os.environ.get('VERIF_REPLAY_DIR') or os.path.join(boot.VERIF, 'replays')
    os.makedirs(d, exist_ok=True)
    sigslug = hashlib.sha256(violation['sig'].encode()).hexdigest()[:8]
    suffix = ('-h' + hashlib.sha256(canon(preamble).encode()).hexdigest()[:6]) if preamble else ''
    path = os.path.join(d, f'{pid}-{seed}-{sigslug}-{scenario_digest(scenario)[:8]}{suffix}.json')
    with open(path, 'w') as f:
        json.dump(
            {
                'property': pid,
                'seed': seed,
                'scenario': scenario,
                'expected': {'kind': violation['kind'], 'sig': violation['sig'], 'detail': violation.get('detail')},
                # scenarios (by seed) the process must execute first: the violation depends on state the code under test
                # keeps between executions in one process
                'preamble': preamble,
                'digest': out.get('digest') if not preamble else None,
                'trace': out.get('log'),
            },
            f,
            indent=1,
            default=str,
        )
    return path


def replay_file(path, quiet=False):
    """Execute a replay file in this interpreter.  Returns (exit code, info)."""
    with open(path) as f:
        rep = json.load(f)
    pid = rep['property']
    mod = load_prop(pid)
    pre = rep.get('preamble')
    if pre:
        for sd in pre['seeds']:
            run_one(mod, mod.gen(sd, pre['tier']))
        if not quiet:
            print(f'executed {len(pre["seeds"])} preamble scenario(s) first (seeds {pre["seeds"][:8]}{"..." if len(pre["seeds"]) > 8 else ""})')
    out = run_one(mod, rep['scenario'], want_log=True)
    if 'harness_error' in out:
        print('HARNESS-ERROR during replay:\n' + out['harness_error'])
        return 2, out
    sigs = [v['sig'] for v in out.get('violations', [])]
    same = rep['expected']['sig'] in sigs
    same_digest = rep.get('digest') is None or rep['digest'] == out.get('digest')
    if not quiet:
        print(f'replay property={pid} seed={rep.get("seed")} expected={rep["expected"]["sig"]!r}')
        print(f'  violations now: {sigs}')
        print(f'  event-log digest identical: {same_digest}')
        for v in out.get('violations', []):
            print('  detail:', json.dumps(v.get('detail'), default=str)[:1500])
    if same:
        if not quiet:
            print(f'VIOLATION property={pid} replay={path}')
        return 1, {'same_digest': same_digest}
    return 0, {'same_digest': same_digest}


def replay_fresh(path):
    """Replay in a fresh interpreter; returns True iff the violation reproduces there."""
    env = dict(os.environ)
    env['PYTHONHASHSEED'] = '0'
    p = subprocess.run(
        [sys.executable, os.path.join(boot.VERIF, 'simtz', 'cli.py'), 'replay', path],
        capture_output=True,
        text=True,
        env=env,
        timeout=600,
    )
    return p.returncode == 1 and 'event-log digest identical: True' in p.stdout, p.stdout + p.stderr


# ---------------------------------------------------------------------------------
# the check
# ---------------------------------------------------------------------------------


def shrink_fresh(pid, mod, seed, scenario, sig, vv, path, budget=40, deadline=None):
    """ddmin over the step list where every candidate is executed in a fresh interpreter."""
    steps_key = getattr(mod, 'STEPS_KEY', 'steps')
    best, best_path, best_v = copy.deepcopy(scenario), path, vv
    used = 0
    n = 2
    while used < budget and len(best.get(steps_key, [])) >= 2:
        if deadline is not None and time.time() > deadline:
            break
        steps = best[steps_key]
        chunk = max(1, len(steps) // n)
        reduced = False
        for start in range(0, len(steps), chunk):
            if used >= budget or (deadline is not None and time.time() > deadline):
                break
            cand = copy.deepcopy(best)
            cand[steps_key] = steps[:start] + steps[start + chunk:]
            if not cand[steps_key] or (hasattr(mod, 'valid') and not mod.valid(cand)):
                continue
            p = write_replay(pid, seed, cand, {'kind': vv['kind'], 'sig': sig, 'detail': None}, {'digest': None, 'log': None})
            used += 1
            ok, _ = replay_fresh(p)
            if ok:
                best, best_path = cand, p
                n = max(n - 1, 2)
                reduced = True
                break
            try:
                os.unlink(p)
            except OSError:
                pass
        if not reduced:
            if chunk == 1:
                break
            n = min(len(steps), n * 2)
    return best, best_path, best_v, used


def seeds_for(base, start, count):
    return [base * 1_000_000 + start + i for i in range(count)]


def run_check(pid, tier, base_seed=None, budget_s=None, workers=None, runs=None):
    t0 = time.time()
    mod = load_prop(pid)
    boot.load_pytezos()
    base_seed = int(os.environ.get('VERIF_SEED', '1')) if base_seed is None else base_seed
    workers = int(os.environ.get('VERIF_WORKERS', str(min(16, os.cpu_count() or 1)))) if workers is None else workers
    if budget_s is None:
        budget_s = float(os.environ.get('VERIF_BUDGET_S', '0') or 0) or (mod.QUICK_BUDGET_S if tier == 'quick' else 600)
    if runs is None:
        runs = int(os.environ.get('VERIF_RUNS', '0') or 0) or (mod.QUICK_RUNS if tier == 'quick' else None)
    chunk = getattr(mod, 'CHUNK', 50)
    print(f'VERIF_SEED={base_seed} property={pid} tier={tier} workers={workers} budget_s={budget_s} runs={runs}')
    sys.stdout.flush()

    total = new_agg()
    harness_fail = None
    known_sigs = {e['signature'] for e in load_known(pid)}
    selftest_note = {}
    if tier == 'thorough' and os.environ.get('VERIF_THOROUGH_SELFTEST', '1') != '0' and not os.environ.get('VERIF_REPO'):
        # prove the simulator first: same seed -> same execution, in fresh interpreters under other hash seeds / worker counts
        from simtz import selftest

        os.environ.setdefault('VERIF_DET_SCALE', '0.3')
        rc = selftest.determinism([pid])
        selftest_note['determinism_rc'] = rc
        if rc != 0:
            harness_fail = 'determinism self-test failed (see output above)'
        sys.stdout.flush()
    # One forked process per chunk: every chunk starts from the same clean image (pytezos imported, nothing executed),
    # so whatever the code under test keeps between executions is a function of the seeds of that chunk alone.
    ctx = multiprocessing.get_context('fork')
    next_start = 0
    active = []  # (process, connection, started_at, seeds)
    chunk_timeout = getattr(mod, 'CHUNK_TIMEOUT_S', 300)

    def submit():
        nonlocal next_start
        if runs is not None and next_start >= runs:
            return False
        n = chunk if runs is None else min(chunk, runs - next_start)
        seeds = seeds_for(base_seed, next_start, n)
        next_start += n
        parent, child = ctx.Pipe(duplex=False)
        proc = ctx.Process(target=_chunk_main, args=(child, (pid, tier, seeds, chunk_timeout)), daemon=True)
        proc.start()
        child.close()
        active.append((proc, parent, time.time(), seeds))
        return True

    for _ in range(workers):
        if not submit():
            break
    from multiprocessing.connection import wait as _wait

    while active and not harness_fail:
        ready = _wait([c for _p, c, _t, _s in active], timeout=5)
        now = time.time()
        for entry in list(active):
            proc, conn, started, seeds = entry
            if conn in ready:
                try:
                    part = conn.recv()
                except EOFError:
                    part = None
                conn.close()
                proc.join(timeout=10)
                active.remove(entry)
                if part is None or 'worker_exception' in part:
                    harness_fail = 'worker failed on seeds %d..%d: %s' % (seeds[0], seeds[-1], (part or {}).get('worker_exception', 'died without a result'))
                    break
                merge_agg(total, part)
                over_budget = (time.time() - t0) > budget_s
                many_viol = sum(c for sg, c in total['sig_counts'].items() if sg not in known_sigs) >= 60
                if not many_viol and (not over_budget or (runs is not None and tier == 'quick' and (time.time() - t0) < budget_s * 3)):
                    # quick tier: the run count is the contract, the budget a safety net
                    submit()
            elif now - started > chunk_timeout + 30:
                proc.terminate()
                active.remove(entry)
                harness_fail = f'worker timed out on seeds {seeds[0]}..{seeds[-1]}'
                break
    for proc, conn, _t, _s in active:
        proc.terminate()
        conn.close()
    search_wall = time.time() - t0

    if total['harness_errors'] and not harness_fail:
        harness_fail = 'harness exception in %d run(s); first (seed %d):\n%s' % (
            len(total['harness_errors']),
            total['harness_errors'][0][0],
            total['harness_errors'][0][1],
        )

    # ---- violations: group by signature, shrink, write + verify replay, classify
    known = load_known(pid)
    by_sig = {}
    for seed, scn, v in total['violations']:
        by_sig.setdefault(v['sig'], []).append((seed, scn, v))
    reported = []
    known_seen = []
    unstable = []
    exit_code = 0
    # minimisation is bounded in wall-clock time as a whole: past the deadline a violation is reported with the scenario as found
    shrink_deadline = time.time() + (float(os.environ.get('VERIF_SHRINK_WALL_S') or 0) or (getattr(mod, 'SHRINK_WALL_S', 420) if tier == 'quick' else 1800))
    for sig in sorted(by_sig):
        cases = sorted(by_sig[sig], key=lambda c: (len(canon(c[1])), c[0]))
        seed, scn, v = cases[0]
        k = match_known(known, sig)
        if k is not None:
            cnt = total['sig_counts'].get(sig, len(cases))
            known_seen.append({'signature': sig, 'what': k['what'], 'count': cnt, 'seed': seed})
            print(f'KNOWN-FINDING: property={pid} {k["what"]} [signature={sig}] ({cnt} occurrences, e.g. seed {seed})')
            continue
        if len(reported) >= getattr(mod, 'MAX_SHRINK_SIGS', 6) or time.time() > shrink_deadline:
            # reported as found (not minimised, not re-verified): the replay file still reproduces the run that found it
            clean_v = {k: x for k, x in v.items() if k != '_history'}
            hist = v.get('_history') or []
            p0 = write_replay(pid, seed, scn, clean_v, {}, preamble={'tier': tier, 'seeds': list(hist)} if hist else None)
            reported.append({'signature': sig, 'seed': seed, 'count': total['sig_counts'].get(sig, len(cases)), 'replay': p0, 'shrink_execs': 'not minimised'})
            print(f'VIOLATION property={pid} replay={p0}')
            print(f'  signature: {sig}   occurrences: {total["sig_counts"].get(sig, len(cases))}   (as found: not minimised)')
            exit_code = 1
            continue
        small, execs = shrink(mod, scn, sig, max_exec=getattr(mod, 'SHRINK_EXECS', 400), deadline=shrink_deadline)
        out = run_one(mod, small, want_log=True)
        vv = next((x for x in out.get('violations', []) if x['sig'] == sig), None)
        path = ok = None
        txt = ''
        if vv is not None:
            vv = {k: x for k, x in vv.items() if k != '_history'}
            path = write_replay(pid, seed, small, vv, out)
            ok, txt = replay_fresh(path)
        if not ok:
            # The minimised scenario does not stand on its own in a fresh interpreter.  That happens when the code
            # under test keeps state between executions inside one process (a module-level cache, say): the shrinker's
            # own candidates then influence each other.  Fall back to a case as found, verified in a fresh interpreter,
            # and minimise it with fresh-process executions only (slow, small budget).
            found = None
            history_note = None
            for seed2, scn2, _v2 in cases[:12]:
                out2 = run_one(mod, scn2, want_log=True)
                v2 = next((x for x in out2.get('violations', []) if x['sig'] == sig), None)
                if v2 is None:
                    continue
                v2 = {k: x for k, x in v2.items() if k != '_history'}
                p2 = write_replay(pid, seed2, scn2, v2, out2)
                ok2, txt2 = replay_fresh(p2)
                if ok2:
                    found = (seed2, scn2, v2, p2)
                    break
                txt = txt2
            if found is None:
                # last resort: reproduce the process history of the run that found it (the chunk starts from a clean image)
                for seed2, scn2, v2 in cases[:4]:
                    hist = v2.get('_history') or []
                    if not hist:
                        continue
                    pre = {'tier': tier, 'seeds': list(hist)}
                    clean_v = {k: x for k, x in v2.items() if k != '_history'}
                    p2 = write_replay(pid, seed2, scn2, clean_v, {}, preamble=pre)
                    ok2, txt2 = replay_fresh(p2)
                    if not ok2:
                        continue
                    # minimise the preamble with fresh-process executions (which earlier runs are needed?)
                    best, used, n2 = list(hist), 0, 2
                    while used < 30 and len(best) >= 2 and time.time() < shrink_deadline:
                        size = max(1, len(best) // n2)
                        reduced = False
                        for st_ in range(0, len(best), size):
                            cand = best[:st_] + best[st_ + size:]
                            p3 = write_replay(pid, seed2, scn2, clean_v, {}, preamble={'tier': tier, 'seeds': cand})
                            used += 1
                            ok3, _ = replay_fresh(p3)
                            if ok3:
                                best, p2, reduced = cand, p3, True
                                n2 = max(n2 - 1, 2)
                                break
                            os.unlink(p3)
                            if used >= 30:
                                break
                        if not reduced:
                            if size == 1:
                                break
                            n2 = min(len(best), n2 * 2)
                    found = (seed2, scn2, clean_v, p2)
                    history_note = f'needs {len(best)} earlier scenario(s) in the same process (seeds {best[:6]}{"..." if len(best) > 6 else ""})'
                    break
            if found is not None and history_note:
                seed, scn2, vv, path = found
                small = scn2
                execs = f'{execs} in-process (unstable) + fresh-process history minimisation'
                print(f'  note: {sig} depends on process history: {history_note}')
                reported.append({'signature': sig, 'seed': seed, 'count': total['sig_counts'].get(sig, len(cases)), 'replay': path, 'shrink_execs': execs,
                                 'detail': vv.get('detail'), 'process_history': history_note})
                print(f'VIOLATION property={pid} replay={path}')
                print(f'  signature: {sig}   occurrences: {total["sig_counts"].get(sig, len(cases))}   shrink executions: {execs}')
                print(f'  detail: {json.dumps(vv.get("detail"), default=str)[:1200]}')
                exit_code = 1
                continue
            if found is None:
                unstable.append(f'violation {sig!r} (seed {seed}, {total["sig_counts"].get(sig, len(cases))} occurrences) reproduces neither minimised nor as '
                                f'found in a fresh interpreter — it depends on what the worker process executed before that run')
                continue
            seed, scn2, vv, path = found
            small, path, vv, fexecs = shrink_fresh(pid, mod, seed, scn2, sig, vv, path, deadline=shrink_deadline)
            execs = f'{execs} in-process (unstable) + {fexecs} fresh-process'
            print(f'  note: minimisation of {sig} was redone with fresh-process executions (state leaks between executions in one process)')
        reported.append(
            {'signature': sig, 'seed': seed, 'count': total['sig_counts'].get(sig, len(cases)), 'replay': path, 'shrink_execs': execs, 'detail': vv.get('detail')}
        )
        print(f'VIOLATION property={pid} replay={path}')
        print(f'  signature: {sig}   occurrences: {total["sig_counts"].get(sig, len(cases))}   shrink executions: {execs}')
        print(f'  detail: {json.dumps(vv.get("detail"), default=str)[:1200]}')
        exit_code = 1

    for msg in unstable:
        print('UNSTABLE: ' + msg)
    if unstable and exit_code == 0 and not harness_fail:
        # nothing could be confirmed in a fresh interpreter: not reported as a violation of the property
        harness_fail = 'only process-history dependent alarms were seen; ' + unstable[0]
    if tier == 'thorough' and os.environ.get('VERIF_THOROUGH_SELFTEST', '1') != '0' and not os.environ.get('VERIF_REPO') and exit_code == 0 and not harness_fail:
        # sensitivity: the mutant table of this property (scratch copies under mktemp, removed afterwards)
        from simtz import selftest

        rc = selftest.mutants([pid])
        selftest_note['mutants_rc'] = rc
        if rc != 0:
            print(f'WARNING: mutant self-test of {pid} had unexpected results (a survivor weakens the evidence; it is not a violation)')
        sys.stdout.flush()
    wall = time.time() - t0
    ev = build_evidence(pid, mod, tier, base_seed, total, wall, search_wall, workers, reported, known_seen, harness_fail)
    evdir = os.environ.get('VERIF_EVIDENCE_DIR') or os.path.join(boot.VERIF, 'evidence')
    os.makedirs(evdir, exist_ok=True)
    with open(os.path.join(evdir, f'{pid}.json'), 'w') as f:
        json.dump(ev, f, indent=1, default=str)

    zero = [p for p in getattr(mod, 'EXPECTED_PROBES', []) if not total['probes'].get(p)]
    print(
        f'{pid} {tier}: runs={total["evaluations"]} nontrivial_distinct={len(total["nontrivial"])} '
        f'judged_events={total["judged_events"]} states={len(total["states"])} '
        f'virtual_s={total["virtual_ms"] // 1000} wall_s={wall:.1f} runs/h={int(total["evaluations"] / max(search_wall, 1e-6) * 3600)}'
    )
    print(f'  faults fired: {dict(total["faults"])}')
    print(f'  probes: {dict(total["probes"])}')
    if zero and tier == 'thorough':
        print(f'  WARNING: reach probes stuck at zero: {zero}')
    if total['unmodelled']:
        print(f'  unmodelled endpoints hit: {dict(total["unmodelled"])}')
    if harness_fail:
        print('HARNESS-FAILURE: ' + harness_fail)
        return 2
    if exit_code == 0:
        print(f'OK property={pid} held on everything explored' + (f' ({len(known_seen)} known finding(s) seen)' if known_seen else ''))
    return exit_code


def build_evidence(pid, mod, tier, base_seed, total, wall, search_wall, workers, reported, known_seen, harness_fail):
    runs_per_hour = int(total['evaluations'] / max(search_wall, 1e-6) * 3600)
    cov = {
        'evaluations': total['evaluations'],
        'distinct_nontrivial': len(total['nontrivial']),
        'rule': mod.RULE,
        'samples': total['samples'][:3] or [{'note': 'no clean judged run to sample'}],
        'judged_events': total['judged_events'],
        'seeds': {'base': base_seed, 'first': total['first_seed'], 'last': total['last_seed']},
        'runs_per_hour': runs_per_hour,
        'seeds_per_hour': runs_per_hour,
        'workers': workers,
        'simulated_seconds_covered': total['virtual_ms'] // 1000,
        'faults_fired': dict(sorted(total['faults'].items())),
        'reach_probes': dict(sorted(total['probes'].items())),
        'informational': dict(sorted(total['info'].items())),
        'distinct_abstract_states': len(total['states']),
        'abstract_state_measure': getattr(mod, 'STATE_MEASURE', ''),
        'distinct_transport_sequences': len(total['seqs']),
        'unmodelled_endpoint_hits': dict(total['unmodelled']),
        'components': getattr(mod, 'COMPONENTS', {}),
        'violations_reported': reported,
        'known_findings_seen': known_seen,
        'harness_failure': harness_fail,
        'search_wall_s': round(search_wall, 2),
    }
    st = os.path.join(boot.VERIF, 'selftest_results.json')
    if os.path.exists(st):
        try:
            with open(st) as f:
                cov['selftests_last_recorded'] = json.load(f).get(pid)
        except Exception:  # noqa: BLE001
            pass
    return {
        'property_id': pid,
        'tier': tier,
        'seed': base_seed,
        'level': 'exploration',
        'coverage': cov,
        'assumptions': getattr(mod, 'ASSUMPTIONS', []),
        'wall_s': round(wall, 2),
        'violations': len(reported),
    }
