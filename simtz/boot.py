"""Process bootstrap: pick the pytezos tree under test and pin hash randomisation.

* pytezos is imported from $VERIF_REPO/src (default /repo/src), placed first on
  sys.path, so checks always run the current working tree (or a scratch copy for
  the mutant self-test).
* The guard BAKING_BAD_PYTEZOS_VERIF=1 is exported for any guarded hook in /repo
  (none exists today; MANIFEST.hooks.source_commits is empty).
* The interpreter is re-executed once with PYTHONHASHSEED=0 unless the caller
  already pinned it, so set/dict-of-str iteration order inside pytezos cannot make
  two runs of one seed differ.
"""
import os
import sys

REPO = os.environ.get('VERIF_REPO', '/repo')
SRC = os.path.join(REPO, 'src')
VERIF = os.path.dirname(os.path.dirname(os.path.abspath(__file__)))
GUARD = 'BAKING_BAD_PYTEZOS_VERIF'


def pin_hashseed():
    if os.environ.get('PYTHONHASHSEED') is None:
        env = dict(os.environ)
        env['PYTHONHASHSEED'] = '0'
        os.execve(sys.executable, [sys.executable] + sys.argv, env)


def setup_path():
    os.environ.setdefault(GUARD, '1')
    if SRC in sys.path:
        sys.path.remove(SRC)
    sys.path.insert(0, SRC)
    if VERIF not in sys.path:
        sys.path.insert(1, VERIF)


def load_pytezos():
    setup_path()
    import logging

    import pytezos  # noqa: F401

    got = os.path.dirname(os.path.dirname(os.path.abspath(pytezos.__file__)))
    if os.path.realpath(got) != os.path.realpath(SRC):
        raise RuntimeError(f'pytezos imported from {got}, expected {SRC}')
    # pytezos formats debug messages eagerly in places; keep the logger quiet and cheap.
    logging.getLogger('pytezos').setLevel(logging.CRITICAL)
    logging.getLogger('pytezos').propagate = False
    return pytezos
