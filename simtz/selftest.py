"""Proving the simulator itself: determinism and sensitivity.

determinism: for each property, N seeds are executed in fresh interpreters under
  PYTHONHASHSEED=1 and =2 and at worker counts 1 and 16; the SHA-256 over the run's event-log
  digest, violations, judged count, probes and abstract states must be identical per seed.
mutants: small source mutations applied to a scratch copy of /repo/src (mktemp -d, removed
  afterwards); the owning property's check must report a VIOLATION that is not a listed
  known finding within the given run budget.
Results are written to /verif/selftest_results.json and copied into the evidence by the checks.
"""
import hashlib
import json
import os
import shutil
import subprocess
import sys
import tempfile
import time

from simtz import boot

CLI = os.path.join(boot.VERIF, 'simtz', 'cli.py')
RESULTS = os.path.join(boot.VERIF, 'selftest_results.json')
ALL = ['C26', 'C28', 'C29', 'C25', 'C24', 'C22', 'C15']
DET_SEEDS = {'C26': 300, 'C28': 300, 'C29': 200, 'C25': 200, 'C24': 120, 'C22': 200, 'C15': 200}


def _load_results():
    if os.path.exists(RESULTS):
        with open(RESULTS) as f:
            return json.load(f)
    return {}


def _save_results(res):
    with open(RESULTS, 'w') as f:
        json.dump(res, f, indent=1, sort_keys=True)


# ------------------------------------------------------------------ determinism
def determinism_worker(argv):
    """Internal: print {seed: fingerprint} for a property and a seed range."""
    pid, start, count, workers = argv[0], int(argv[1]), int(argv[2]), int(argv[3])
    boot.load_pytezos()
    from concurrent.futures import ProcessPoolExecutor
    import multiprocessing

    from simtz import runner

    seeds = [7_000_000 + start + i for i in range(count)]
    chunks = [seeds[i::workers] for i in range(workers)]
    out = {}
    if workers == 1:
        out.update(_fingerprints((pid, seeds)))
    else:
        with ProcessPoolExecutor(max_workers=workers, mp_context=multiprocessing.get_context('fork')) as pool:
            for part in pool.map(_fingerprints, [(pid, c) for c in chunks]):
                out.update(part)
    _ = runner
    print('FINGERPRINTS ' + json.dumps(out, sort_keys=True))
    return 0


def _fingerprints(args):
    from simtz import runner

    pid, seeds = args
    mod = runner.load_prop(pid)
    out = {}
    for s in seeds:
        scn = mod.gen(s, 'quick')
        o = runner.run_one(mod, scn)
        if 'harness_error' in o:
            out[str(s)] = 'HARNESS:' + hashlib.sha256(o['harness_error'].encode()).hexdigest()[:12]
            continue
        fp = {
            'scn': runner.scenario_digest(scn), 'digest': o.get('digest'), 'violations': [(v['sig'], v.get('detail')) for v in o.get('violations', [])],
            'judged': o.get('judged'), 'probes': o.get('probes'), 'states': o.get('states'), 'info': o.get('info'), 'faults': o.get('faults'),
            'virtual_ms': o.get('virtual_ms'),
        }
        out[str(s)] = hashlib.sha256(runner.canon(fp).encode()).hexdigest()
    return out


def determinism(argv):
    props = [a for a in argv if a in ALL] or ALL
    scale = float(os.environ.get('VERIF_DET_SCALE', '1'))
    res = _load_results()
    bad = 0
    for pid in props:
        n = max(10, int(DET_SEEDS[pid] * scale))
        runs = {}
        t0 = time.time()
        for label, hashseed, workers in (('hs1-w1', '1', 1), ('hs2-w16', '2', 16), ('hs0-w4', '0', 4)):
            env = dict(os.environ)
            env['PYTHONHASHSEED'] = hashseed
            p = subprocess.run([sys.executable, CLI, 'determinism-worker', pid, '0', str(n), str(workers)], capture_output=True, text=True, env=env, timeout=3600)
            line = next((ln for ln in p.stdout.splitlines() if ln.startswith('FINGERPRINTS ')), None)
            if p.returncode != 0 or line is None:
                print(f'{pid} {label}: worker failed rc={p.returncode}\n{p.stdout[-1500:]}\n{p.stderr[-1500:]}')
                bad += 1
                runs[label] = None
                continue
            runs[label] = json.loads(line[len('FINGERPRINTS '):])
        labels = [k for k, v in runs.items() if v is not None]
        diverged = []
        harness = []
        if len(labels) == 3:
            base = runs[labels[0]]
            for s, fp in base.items():
                if fp.startswith('HARNESS:'):
                    harness.append(s)
                if any(runs[lbl].get(s) != fp for lbl in labels[1:]):
                    diverged.append(s)
        ok = len(labels) == 3 and not diverged and not harness
        res.setdefault(pid, {})['determinism'] = {
            'seeds': n, 'configurations': ['PYTHONHASHSEED=1 workers=1', 'PYTHONHASHSEED=2 workers=16', 'PYTHONHASHSEED=0 workers=4'], 'fresh_interpreters': 3,
            'diverged_seeds': diverged[:20], 'harness_error_seeds': harness[:20], 'ok': ok, 'wall_s': round(time.time() - t0, 1),
        }
        print(f'{pid}: determinism {"OK" if ok else "FAILED"} over {n} seeds x 3 fresh interpreters (diverged={len(diverged)}, harness_errors={len(harness)})')
        if not ok:
            bad += 1
    _save_results(res)
    return 0 if bad == 0 else 2


# ------------------------------------------------------------------ mutants
NODE = 'pytezos/rpc/node.py'
IMPL = 'pytezos/context/impl.py'
GROUP = 'pytezos/operation/group.py'
FEES = 'pytezos/operation/fees.py'
SEARCH = 'pytezos/rpc/search.py'
REPL = 'pytezos/michelson/repl.py'
BIGMAP = 'pytezos/michelson/types/big_map.py'

OLD_SEARCH_LOOP = '''    pred_level, pred_value = last, get(last)
    logger.debug('%s at level %s', pred_value, pred_level)

    # walk upwards from `last` (inclusive) so that intervals come in increasing order
    # and changes right after the start of the range are not skipped
    while pred_level < head:
        level = min(pred_level + step, head)
        value = get(level)
        logger.debug('%s at level %s', value, level)

        if not equals(value, pred_value):
            logger.debug('%s -> %s at (%s, %s]', pred_value, value, pred_level, level)
            yield level, value, pred_level, pred_value
        pred_level, pred_value = level, value
'''
DOWNWARD_LOOP = '''    succ_value = get(head)
    for level in range(head - step, last, -step):
        value = get(level)
        if not equals(value, succ_value):
            yield level + step, succ_value, level, value
            succ_value = value
'''
DOWNWARD_WITH_LAST = '''    succ_value = get(head)
    levels = list(range(head - step, last, -step)) + [last]
    succ_level = head
    for level in levels:
        value = get(level)
        if not equals(value, succ_value):
            yield succ_level, succ_value, level, value
            succ_value = value
        succ_level = level
'''

MUTANTS = [
    # id, property, file, old, new, description
    ('c26-cap5', 'C26', NODE, 'TRANSIENT_RETRY_ATTEMPTS = 6', 'TRANSIENT_RETRY_ATTEMPTS = 5', 'retry cap 6 -> 5'),
    ('c26-cap7', 'C26', NODE, 'TRANSIENT_RETRY_ATTEMPTS = 6', 'TRANSIENT_RETRY_ATTEMPTS = 7', 'retry cap 6 -> 7'),
    ('c26-4xx', 'C26', NODE, 'if res.status_code >= 500 and _is_transient_response(res)', 'if res.status_code >= 400 and _is_transient_response(res)', 'retry temporary 4xx'),
    ('c26-proto', 'C26', NODE, "            if any(isinstance(err, dict) and err.get('id', '').startswith('proto.') for err in body):\n                return False\n", '', 'retry protocol errors marked temporary'),
    ('c26-nocap', 'C26', NODE, 'delay = min(delay * 2, TRANSIENT_RETRY_MAX_DELAY)', 'delay = delay * 2', 'back-off cap dropped'),
    ('c26-marker', 'C26', NODE, "_TRANSIENT_TEXT_MARKERS = ('prevalidator.ml',)", '_TRANSIENT_TEXT_MARKERS = ()', 'prevalidator failures no longer retried'),
    ('c26-decreasing', 'C26', NODE, 'delay = min(delay * 2, TRANSIENT_RETRY_MAX_DELAY)', 'delay = max(delay / 2, 0.01)', 'decreasing delays'),
    ('c26-permanent', 'C26', NODE, "err.get('kind') == 'temporary'", "err.get('kind') in ('temporary', 'branch')", 'retry branch errors'),
    ('c28-revert', 'C28', NODE, '''        try:
            return self.nodes[self._next_i].request(method, path, **kwargs)
        finally:
            # rotate even if the request failed, otherwise the client gets stuck on a failing node
            self._next_i = (self._next_i + 1) % len(self.nodes)''', '''        res = self.nodes[self._next_i].request(method, path, **kwargs)
        self._next_i = (self._next_i + 1) % len(self.nodes)
        return res''', 'revert fix: advance only on success'),
    ('c28-skip', 'C28', NODE, 'self._next_i = (self._next_i + 1) % len(self.nodes)', 'self._next_i = (self._next_i + 2) % len(self.nodes)', 'rotate by two'),
    ('c28-baseexc', 'C28', NODE, '''        try:
            return self.nodes[self._next_i].request(method, path, **kwargs)
        finally:
            # rotate even if the request failed, otherwise the client gets stuck on a failing node
            self._next_i = (self._next_i + 1) % len(self.nodes)''', '''        try:
            res = self.nodes[self._next_i].request(method, path, **kwargs)
        except RpcError:
            self._next_i = (self._next_i + 1) % len(self.nodes)
            raise
        self._next_i = (self._next_i + 1) % len(self.nodes)
        return res''', 'rotate after RpcError but not after a transport exception'),
    ('c25-validated', 'C25', IMPL, "chain(mempool.get('validated', []), mempool.get('applied', []), mempool.get('unprocessed', []))", "chain(mempool.get('applied', []), mempool.get('unprocessed', []))", 'revert fix: ignore `validated`'),
    ('c25-cached', 'C25', GROUP, '''        else:
            # always start from the counter on the node: a previous fill of this group (e.g. to inspect
            # fees before sending) must not shift the counters of this one
            self.context.counter = None
''', '', 'revert fix: cached counter survives between fills'),
    ('c25-nooffset', 'C25', GROUP, 'counter=str(current_counter + counter_offset),', 'counter=str(current_counter),', 'autofill drops the mempool offset'),
    ('c25-firstcontent', 'C25', IMPL, '                    counter_offset += 1\n', '                    counter_offset += 1\n                    break\n', 'pending batch counted as one operation'),
    ('c25-unprocessed', 'C25', IMPL, "chain(mempool.get('validated', []), mempool.get('applied', []), mempool.get('unprocessed', []))", "chain(mempool.get('validated', []), mempool.get('applied', []))", 'asynchronously injected (not yet classified) operations not counted as pending'),
    ('c25-noreset', 'C25', GROUP, '        self.context.reset()  # reset counter\n', '', 'inject no longer resets the cached counter (masked by the per-fill re-read unless counter= is used)'),
    ('c25-offbyone', 'C25', IMPL, "            self.counter = int(self.shell.contracts[key_hash]()['counter'])\n", "            self.counter = int(self.shell.contracts[key_hash]()['counter']) + (1 if self.shell.mempool.pending_operations().get('refused') else 0)\n", 'counter shifted when the mempool has refused operations of anyone'),
    ('c24-firstonly', 'C24', GROUP, "'fee': lambda i, x: str(default_fee(x, gas_limit, minimal_nanotez_per_gas_unit, constants)),", "'fee': lambda i, x: str(default_fee(x, gas_limit, minimal_nanotez_per_gas_unit, constants) if i == 0 else 0),", 'revert fix: fee on first content only'),
    ('c24-tz4', 'C24', FEES, "return 96 if source.startswith('tz4') else 64", 'return 64', 'revert fix: tz4 signature size'),
    ('c24-reserve0', 'C24', FEES, 'reserve=10,', 'reserve=0,', 'safety reserve dropped'),
    ('c24-minfee', 'C24', FEES, 'MINIMAL_FEES = 100', 'MINIMAL_FEES = 50', 'minimal fee constant halved'),
    ('c24-extrasize', 'C24', GROUP, 'extra_size=1 + extra_size // num_contents)', 'extra_size=extra_size // num_contents // 2)', 'branch+signature share halved'),
    ('c24-gasfloor', 'C24', GROUP, "                    if content['kind'] in ['origination', 'transaction']:\n                        gas_limit_new += gas_reserve\n", "                    if content['kind'] in ['origination', 'transaction']:\n                        gas_limit_new += gas_reserve\n                fee_gas = gas_limit_new - gas_reserve if content['kind'] in ['origination', 'transaction'] and gas_limit is None else gas_limit_new\n", None),
    ('c29-downward', 'C29', SEARCH, OLD_SEARCH_LOOP, DOWNWARD_LOOP, 'revert to the downward walk (tail missed, order reversed)'),
    ('c29-order', 'C29', SEARCH, OLD_SEARCH_LOOP, DOWNWARD_WITH_LAST, 'downward walk that samples `last` (order reversed only)'),
    ('c29-overshoot', 'C29', SEARCH, 'level = min(pred_level + step, head)', 'level = pred_level + step', 'last interval overshoots head'),
    ('c29-bisect', 'C29', SEARCH, '        if end == start + 1:\n            return end, get(end)', '        if end <= start + 2:\n            return end, get(end)', 'bisection stops one level early'),
    ('c29-skipequal', 'C29', SEARCH, '        pred_level, pred_value = level, value\n', '        if not equals(value, pred_value):\n            pred_level, pred_value = level, value\n', 'interval start not advanced over unchanged samples (never terminates)'),
    ('c22-revert', 'C22', REPL, 'context_backup, stack_backup = deepcopy((self.context, self.stack))', 'stack_backup = deepcopy(self.stack)\n        context_backup = deepcopy(self.context)', 'revert fix: separate deep copies'),
    ('c22-nocontext', 'C22', REPL, '            self.context = context_backup\n', '', 'context not restored after a failure'),
    ('c22-nostack', 'C22', REPL, '            self.stack = stack_backup\n', '', 'stack not restored after a failure'),
    ('c22-shallow', 'C22', REPL, 'context_backup, stack_backup = deepcopy((self.context, self.stack))', 'import copy as _c\n        context_backup = deepcopy(self.context)\n        stack_backup = _c.copy(self.stack)\n        stack_backup.items = list(self.stack.items)', 'shallow stack backup'),
    ('c22-memo', 'C22', BIGMAP, 'res.context = memodict.get(id(self.context), self.context)', 'res.context = self.context', 'copied big_maps keep the live context'),
    ('c15-revert', 'C15', BIGMAP, '''        items = [(k, v) for k, v in self.items if k != key]
        removed_keys = [k for k in self.removed_keys if k != key]
        if val is not None:
            items = sorted(items + [(key, val)], key=lambda x: x[0])
        elif prev_val is not None or key in self.removed_keys:
            removed_keys.append(key)
''', '''        removed_keys = set(self.removed_keys)
        if prev_val is not None:
            if val is not None:
                items = [(k, v if k != key else val) for k, v in self]
            else:  # remove
                items = [(k, v) for k, v in self if k != key]
                removed_keys.add(key)
        else:
            if val is not None:
                items = sorted(self.items + [(key, val)], key=lambda x: x[0])
                if key in removed_keys:
                    removed_keys.remove(key)
            else:  # do nothing
                items = self.items  # type: ignore
        removed_keys = list(removed_keys)
''', 'revert fix: original BigMapType.update'),
    ('c15-keepremoved', 'C15', BIGMAP, '        removed_keys = [k for k in self.removed_keys if k != key]\n', '        removed_keys = list(self.removed_keys)\n', 're-inserted key stays in removed_keys'),
    ('c15-noremoval', 'C15', BIGMAP, '        elif prev_val is not None or key in self.removed_keys:\n            removed_keys.append(key)\n', '        elif key in self.removed_keys:\n            removed_keys.append(key)\n', 'removal of an existing key not recorded'),
    ('c15-hash', 'C15', BIGMAP, "                'key_hash': forge_script_expr(key.pack(legacy=True)),", "                'key_hash': forge_script_expr(key.pack(legacy=True)[1:]),", 'diff key_hash computed over the unprefixed packing'),
    ('c15-localfirst', 'C15', BIGMAP, '        val = next((v for k, v in self if k == key), Undefined)  # search in diff', '        val = next((v for k, v in self.items if k == key), Undefined)  # search in diff', 'locally removed keys read through to the chain'),
    ('c15-dupshare', 'C15', BIGMAP, '            items=deepcopy(self.items),\n            ptr=self.ptr,\n            removed_keys=deepcopy(self.removed_keys),', '            items=self.items,\n            ptr=self.ptr,\n            removed_keys=self.removed_keys,', 'DUP shares the lists (updates create new lists, so still correct) — expected to SURVIVE'),
    ('c15-gethash', 'C15', BIGMAP, '            key_hash = forge_script_expr(key.pack(legacy=True))\n            val_expr', '            key_hash = forge_script_expr(key.pack(legacy=True)[:-1] + b"\\x00")\n            val_expr', 'lazy read uses a corrupted key hash'),
    ('c15-ignoreblockid', 'C15', IMPL, "            return self.shell.blocks[self.block_id].context.big_maps[ptr][key_hash]()", "            return self.shell.blocks['head'].context.big_maps[ptr][key_hash]()", 'lazy read ignores the context block id (always reads the head)'),
]
MICHELINE = 'pytezos/michelson/micheline.py'
MUTANTS += [
    # kinds learned from the later seeded rounds (one-line versions)
    ('c26-anystatus', 'C26', NODE, 'if res.status_code >= 500 and _is_transient_response(res)', 'if res.status_code != 401 and _is_transient_response(res)',
     'status guard dropped: any answer quoting the marker / any temporary error list is retried'),
    ('c26-longbody', 'C26', NODE, '    return any(marker in res.text for marker in _TRANSIENT_TEXT_MARKERS)',
     "    return int(res.headers.get('content-length') or 0) <= 4096 and any(marker in res.text for marker in _TRANSIENT_TEXT_MARKERS)",
     'long bodies with a Content-Length header are not scanned for the marker'),
    ('c28-lenuri', 'C28', NODE, '            self._next_i = (self._next_i + 1) % len(self.nodes)', '            self._next_i = (self._next_i + 1) % len(self.uri)',
     "rotation modulo the length of the caller's list"),
    ('c24-builtin-constants', 'C24', GROUP, 'default_fee(x, gas_limit, minimal_nanotez_per_gas_unit, constants)', 'default_fee(x, gas_limit, minimal_nanotez_per_gas_unit)',
     'revert fix: fill() prices the default gas limit with the built-in constants'),
    ('c22-notimpl', 'C22', MICHELINE, "            return func(*args, **kwargs)\n        except Exception as e:\n            if not e.args:",
     "            return func(*args, **kwargs)\n        except NotImplementedError:\n            raise\n        except Exception as e:\n            if not e.args:",
     'NotImplementedError escapes the error wrapper: such a cell is not rolled back'),
    ('c29-stopblock', 'C29', SEARCH, "        last, head = self.get_range()\n        state_changes = find_state_changes(\n            head=head - 1,  # ballots are empty at the last block",
     "        last, head = self.get_range()\n        if self._getitem(head).votes.ballots() == self._getitem(last).votes.ballots():\n            return\n        state_changes = find_state_changes(\n            head=head - 1,  # ballots are empty at the last block",
     'find_ballots returns early when the stop block equals the start block'),
]
MUTANTS = [m for m in MUTANTS if m[5] is not None]
EXPECT_SURVIVE = {'c15-dupshare', 'c25-noreset'}
MUTANT_RUNS = {'C26': 6000, 'C28': 4000, 'C29': 3000, 'C25': 1500, 'C24': 1200, 'C22': 800, 'C15': 800}


def mutants(argv):
    want_props = [a for a in argv if a in ALL]
    want_ids = [a for a in argv if a not in ALL]
    res = _load_results()
    table = {}
    bad = 0
    for mid, pid, rel, old, new, descr in MUTANTS:
        if want_props and pid not in want_props:
            continue
        if want_ids and mid not in want_ids:
            continue
        tmp = tempfile.mkdtemp(prefix='simtz-mutant-')
        try:
            shutil.copytree(os.path.join(boot.REPO, 'src'), os.path.join(tmp, 'src'), ignore=shutil.ignore_patterns('__pycache__'))
            path = os.path.join(tmp, 'src', rel)
            with open(path) as f:
                src = f.read()
            if src.count(old) != 1:
                print(f'{mid}: pattern occurs {src.count(old)} times in {rel} (expected 1) — mutant table out of date')
                table[mid] = {'property': pid, 'status': 'stale', 'description': descr}
                bad += 1
                continue
            with open(path, 'w') as f:
                f.write(src.replace(old, new))
            env = dict(os.environ)
            env['VERIF_REPO'] = tmp
            env['VERIF_EVIDENCE_DIR'] = os.path.join(tmp, 'evidence')
            env['VERIF_REPLAY_DIR'] = os.path.join(tmp, 'replays')
            env['VERIF_SEED'] = '11'
            env['PYTHONHASHSEED'] = '0'
            t0 = time.time()
            p = subprocess.run([sys.executable, CLI, pid, '--tier', 'quick', '--runs', str(MUTANT_RUNS[pid])], capture_output=True, text=True, env=env,
                               timeout=1800, cwd=boot.VERIF)
            sigs = [ln.split('signature: ')[1].split('   ')[0] for ln in p.stdout.splitlines() if ln.strip().startswith('signature: ')]
            killed = p.returncode == 1 and 'VIOLATION property=' + pid in p.stdout
            status = 'killed' if killed else ('harness-failure' if p.returncode == 2 else 'survived')
            table[mid] = {'property': pid, 'status': status, 'description': descr, 'signatures': sigs[:4], 'wall_s': round(time.time() - t0, 1)}
            exp = 'survived' if mid in EXPECT_SURVIVE else 'killed'
            flag = '' if status == exp else '   <-- UNEXPECTED'
            print(f'{mid:18s} {pid} {status:16s} {descr} {sigs[:2]}{flag}')
            if status != exp:
                bad += 1
                if status == 'harness-failure':
                    print(p.stdout[-1500:])
        finally:
            shutil.rmtree(tmp, ignore_errors=True)
    # restore evidence of the unchanged tree is the caller's job (checks rewrite evidence on every run)
    for pid in ALL:
        mine = {k: v for k, v in table.items() if v['property'] == pid}
        if mine:
            prev = res.setdefault(pid, {}).get('mutants', {})
            prev.update(mine)
            res[pid]['mutants'] = prev
            killed = sum(1 for v in prev.values() if v['status'] == 'killed')
            res[pid]['mutants_summary'] = f'{killed}/{len(prev)} killed; expected survivors (equivalent or masked mutants): ' + ', '.join(sorted(k for k in prev if k in EXPECT_SURVIVE))
    _save_results(res)
    return 0 if bad == 0 else 2
