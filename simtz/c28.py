"""C28 — Multi-node clients rotate through nodes regardless of failures.

World `rpcsim`: 1..4 fake nodes behind the transport seam; the scenario scripts the outcome
of every client request.  Oracle: every HTTP attempt of the i-th client request (0-based,
counting requests, not attempts) goes to uri[i mod n].
"""
import json

from simtz import core
from simtz import opcodec as oc
from simtz.runner import rng_for

ID = 'C28'
QUICK_RUNS = 40000
QUICK_BUDGET_S = 60
CHUNK = 250
RULE = (
    'seed -> n in 1..4 node URIs and up to 24 client requests through RpcMultiNode.get/post/put/delete/request or ShellQuery '
    'over it, each with a scripted outcome in {200, 404, 401, 400, permanent 500, transient x r then 200 (r<=5), transient x 6, '
    'transport exception}; non-trivial = at least two requests judged and n>=2 or an error outcome present; distinct = scenario digest. '
    'States = (n, i mod n, previous outcome class, outcome class).'
)
STATE_MEASURE = '(n, i mod n, previous outcome class, this outcome class)'
COMPONENTS = {
    'real': ['pytezos.rpc.node.RpcMultiNode.request and inherited get/post/put/delete', 'pytezos.rpc.node.RpcNode.request (retry loop)',
             'pytezos.rpc.shell.ShellQuery over a multi-node'],
    'stub': ['HTTP transport', 'clock'],
}
ASSUMPTIONS = [
    'One RpcMultiNode.get/post/put/delete/request call, or one ShellQuery endpoint call, is one "request"; the retries of a transient '
    'failure belong to the same request and must stay on the same node.',
    'A transport exception counts as a failed request.',
]
EXPECTED_PROBES = ['client_object_displayed', 'two_requests_overlapped_and_finished_out_of_order', 'member_node_probed_directly', 'aborted_call_then_request', 'application_touched_client_inputs', 'pool_given_as_bare_string', 'request_from_worker_thread', 'duplicate_pool_entry', 'two_clients_one_uri_list', 'error_then_request', 'exception_then_request', 'transient_exhausted_then_request', 'wrapped_around']

OUTCOMES = ['ok', 's404', 's401', 's400', 'perm500', 'trans_ok', 'trans6', 'exc', 'exc_timeout', 'exc_chunked', 'exc_connect_timeout', 'abort_interrupt', 'abort_cancelled', 'ok_badjson']
VIAS = ['get', 'post', 'put', 'delete', 'request', 'shell.header', 'shell.counter', 'shell.inject',
        'shell.monitor_heads', 'shell.monitor_bootstrapped', 'shell.peer_log_monitor', 'shell.points', 'shell.raw_bytes', 'shell.pending', 'shell.mempool_post',
        'get_block_by_hash', 'shell.block_by_hash']
# a checksum-valid block hash: requests that address a block by hash are ordinary requests for the rotation
BLOCK_HASH = oc.block_hash(b'c28-some-block')


def gen(seed, tier):
    rng = rng_for(seed, 28)
    n = rng.choice([1, 2, 2, 3, 3, 4])
    enabled = [o for o in OUTCOMES if rng.random() < 0.6] or ['ok']
    if 'ok' not in enabled and rng.random() < 0.7:
        enabled.append('ok')
    long_run = rng.random() < (0.15 if tier == 'thorough' else 0.03)
    very_long = rng.random() < (0.03 if tier == 'thorough' else 0.004)
    if very_long:
        n = rng.choice([3, 3, 2, 4])  # thousands of requests on one client
    nreq = rng.randint(1005, 2100) if very_long else rng.randint(40, 80) if long_run else rng.randint(1, 24 if tier == 'thorough' else 16)
    err_rate = rng.choice([0.1, 0.3, 0.6, 0.9])
    two_clients = rng.random() < 0.25
    # a pool may list one node twice (double weight): entries are positions, not distinct hosts
    hosts = list(range(n))
    if n >= 3 and rng.random() < 0.25:
        hosts[rng.randrange(1, n)] = hosts[0] if rng.random() < 0.5 else hosts[rng.randrange(0, n)]
    threads = rng.random() < 0.2
    steps = []
    for _ in range(nreq):
        errs = [o for o in enabled if o != 'ok']
        if errs and rng.random() < err_rate:
            o = rng.choice(errs)
        else:
            o = 'ok' if 'ok' in enabled else rng.choice(enabled)
        st = {'via': rng.choice(VIAS), 'outcome': o}
        if rng.random() < 0.2:
            st['shell2'] = True  # issued through a second ShellQuery built over the same RpcMultiNode object
        if threads and rng.random() < 0.5:
            st['thread'] = rng.choice([1, 2])  # issued from a worker thread (strictly sequential hand-off: start, join)
        if rng.random() < 0.04:
            # between two requests the application touches things the client was built from / exposes:
            # it edits the list it passed to the constructor, or re-assigns the public `headers` attribute (a refreshed token)
            st['touch'] = rng.choice(['append_uri', 'remove_uri', 'set_headers', 'member_probe', 'member_probe', 'repr', 'repr'])
        if rng.random() < 0.03 and not st.get('thread') and o in ('ok', 's404', 'perm500', 'exc'):
            # this request is still in flight (a slow node) when the application issues the next one from another thread; the slow one
            # finishes last.  Neither of the two is judged; every later request has a well-defined index again and is judged.
            st['overlap_next'] = True
        if two_clients and rng.random() < 0.4:
            st['client'] = 1  # a second RpcMultiNode built from the very same list object (e.g. two `using('<net>.pool')` clients)
        if o == 'trans_ok':
            st['r'] = rng.randint(1, 5)
        steps.append(st)
    return {'prop': ID, 'n': n, 'hosts': hosts, 'steps': steps, 'bare_string_pool': n == 1 and rng.random() < 0.5}


def execute(scn, want_log=False):
    import asyncio

    import requests

    from pytezos.rpc.node import RpcError
    from pytezos.rpc.node import RpcMultiNode
    from pytezos.rpc.shell import ShellQuery

    sim = core.Sim()
    uris = [f'http://node{h}.sim:8732' for h in scn.get('hosts', list(range(scn['n'])))]
    cur = {'outcome': 'ok', 'left': 0, 'k': 0}

    park = {'armed': False, 'started': None, 'release': None}

    def handler(req):
        o = cur['outcome']
        cur['k'] += 1
        if park['armed']:
            # the node is slow: the answer is held back until the harness releases it (another request runs meanwhile)
            park['armed'] = False
            park['started'].set()
            if not park['release'].wait(60):
                raise core.HarnessError('parked request was never released')
        if o == 'ok':
            return core.Reply.js({'ok': cur['k']})
        if o == 's404':
            return core.Reply.text('nope', 404)
        if o == 's401':
            return core.Reply.text('nope', 401)
        if o == 's400':
            return core.Reply.js([{'kind': 'permanent', 'id': 'rpc.bad'}], status=400)
        if o == 'perm500':
            return core.Reply.js([{'kind': 'permanent', 'id': 'node.bad'}], status=500)
        if o == 'trans_ok':
            if cur['left'] > 0:
                cur['left'] -= 1
                return core.Reply(503, core.temp_error_body())
            return core.Reply.js({'ok': cur['k']})
        if o == 'trans6':
            return core.Reply(500, core.temp_error_body())
        if o == 'exc':
            return core.Reply.error('ConnectionError', 'scripted')
        if o == 'exc_timeout':
            return core.Reply.error('ReadTimeout', 'scripted')
        if o == 'exc_chunked':
            return core.Reply.error('ChunkedEncodingError', 'scripted: truncated response')
        if o == 'exc_connect_timeout':
            return core.Reply.error('ConnectTimeout', 'scripted')
        if o == 'ok_badjson':
            # answered 200, but the body is not JSON (a gateway page, an empty or truncated body): the request was sent and answered
            return core.Reply.text(['<html><body>gateway</body></html>', '', '{"truncated": '][cur['k'] % 3], 200)
        if o == 'abort_interrupt':
            return core.Reply.error('KeyboardInterrupt', 'scripted: the user interrupts a call that hangs')
        if o == 'abort_cancelled':
            return core.Reply.error('CancelledError', 'scripted: the surrounding task is cancelled')
        raise core.HarnessError(o)

    tr = core.Transport(sim, handler)
    violations = []
    states = set()
    probes = {}
    judged = 0
    prevs = {}

    def bump(p):
        probes[p] = probes.get(p, 0) + 1

    with core.Seams(sim, tr):
        shared_list = list(uris)  # one list object handed to every client, as the module-level `nodes[net]` lists are
        # the constructor accepts a single URI string as well as a list
        clients = {0: RpcMultiNode(shared_list[0] if scn.get('bare_string_pool') else shared_list)}
        shells = {}
        counts = {0: 0, 1: 0}
        touched = [False]
        inflight = None
        for gi, st in enumerate(scn['steps']):
            cid = st.get('client', 0)
            if cid not in clients and touched[0]:
                cid = 0  # the shared list was edited meanwhile: a client built from it now would be a different pool
                node = clients[0]
            if cid not in clients:
                clients[cid] = RpcMultiNode(shared_list[0] if scn.get('bare_string_pool') else shared_list)  # created lazily: the first client may already have made requests
            node = clients[cid]
            key = (cid, bool(st.get('shell2')))
            if key not in shells:
                shells[key] = ShellQuery(node)
            shell = shells[key]
            i = counts[cid]
            counts[cid] += 1
            prev = prevs.get(cid, 'start')
            if st.get('touch') and not scn.get('bare_string_pool'):
                if st['touch'] == 'append_uri':
                    shared_list.append('http://extra.sim:8732')
                elif st['touch'] == 'remove_uri' and len(shared_list) > 1:
                    shared_list.pop()
                elif st['touch'] == 'set_headers':
                    node.headers = {'Authorization': f'Bearer t{gi}'}
                elif st['touch'] == 'repr':
                    # the application (a notebook cell, a log line) looks at the client object
                    _ = repr(node), str(node), '%r %s' % (shell, shell.node)
                    bump('client_object_displayed')
                elif st['touch'] == 'member_probe':
                    # a health probe sent straight to one member of the pool (the public `nodes` list): not a request of the pool
                    member = node.nodes[gi % len(node.nodes)]
                    cur['outcome'], cur['left'] = 'ok', 0
                    sim.ev('member_probe', member=gi % len(node.nodes))
                    member.get('version')
                    bump('member_node_probed_directly')
                touched[0] = touched[0] or st['touch'] in ('append_uri', 'remove_uri')
                bump('application_touched_client_inputs')
            cur['outcome'] = st['outcome']
            cur['left'] = st.get('r', 0)
            first = len(sim.log)
            sim.ev('client_request', i=i, client=cid, via=st['via'], outcome=st['outcome'])
            box = {}

            def issue(st=st, node=node, shell=shell, box=box):
                try:
                    v = st['via']
                    if v == 'get':
                        node.get('chains/main/blocks/head/hash')
                    elif v == 'post':
                        node.post('injection/operation', json='00')
                    elif v == 'put':
                        node.put('x/y')
                    elif v == 'delete':
                        node.delete('network/connections/p')
                    elif v == 'request':
                        node.request('GET', 'version')
                    elif v == 'get_block_by_hash':
                        node.get(f'chains/main/blocks/{BLOCK_HASH}/header')
                    elif v == 'shell.block_by_hash':
                        shell.blocks[BLOCK_HASH].header()
                    elif v == 'shell.header':
                        shell.head.header()
                    elif v == 'shell.counter':
                        shell.contracts['tz1abc'].counter()
                    elif v == 'shell.inject':
                        shell.injection.operation.post(operation='00')
                    elif v == 'shell.monitor_heads':
                        next(iter(shell.monitor.heads.main()), None)
                    elif v == 'shell.monitor_bootstrapped':
                        next(iter(shell.monitor.bootstrapped()), None)
                    elif v == 'shell.peer_log_monitor':
                        next(iter(shell.network.peers['idPeer'].log(monitor=True)), None)
                    elif v == 'shell.points':
                        shell.network.points(_filter='running')
                    elif v == 'shell.raw_bytes':
                        shell.head.context.raw.bytes(depth=1)
                    elif v == 'shell.pending':
                        shell.mempool.pending_operations()
                    elif v == 'shell.mempool_post':
                        shell.mempool.post({'minimal_fees': '1'})
                    else:
                        raise core.HarnessError(v)
                except RpcError as e:
                    box['raised'] = e
                except requests.exceptions.RequestException as e:
                    box['raised'] = e
                except (KeyboardInterrupt, asyncio.CancelledError) as e:
                    box['raised'] = e  # the scripted abort of this request (see handler)
                except (AssertionError, TypeError, ValueError, IndexError, KeyError, AttributeError) as e:
                    box['raised'] = e  # the client broke instead of sending: judged below (no attempt reached any node)
                except BaseException as e:  # noqa: BLE001  (harness errors / caps raised on the worker thread are re-raised on the main one)
                    box['fatal'] = e
            unjudged = False
            if st.get('overlap_next') and gi + 1 < len(scn['steps']) and inflight is None:
                import threading

                # the slow request runs on a worker thread and parks inside the transport; the main thread goes on with the next step
                park.update(armed=True, started=threading.Event(), release=threading.Event())
                t = threading.Thread(target=issue, name='worker-slow')
                t.start()
                while t.is_alive() and not park['started'].wait(0.01):
                    pass
                if park['started'].is_set():
                    inflight = (t, box, i)
                    sim.ev('request_in_flight', i=i)
                    prevs[cid] = 'overlap'
                    continue
                park['armed'] = False  # it never reached a node: an ordinary sequential request after all
                t.join()
            elif st.get('thread'):
                import threading

                t = threading.Thread(target=issue, name=f'worker-{st["thread"]}')
                t.start()
                t.join()
                bump('request_from_worker_thread')
            else:
                issue()
            if inflight is not None:
                # the slow request of the previous step finishes now, after the one issued later
                t0, box0, i0 = inflight
                inflight = None
                park['release'].set()
                t0.join(60)
                if t0.is_alive():
                    raise core.HarnessError('slow request did not finish')
                if 'fatal' in box0:
                    raise box0['fatal']
                sim.ev('client_done', i=i0, raised=type(box0.get('raised')).__name__ if box0.get('raised') else None, late=True)
                bump('two_requests_overlapped_and_finished_out_of_order')
                unjudged = True
            if 'fatal' in box:
                raise box['fatal']
            raised = box.get('raised')
            sim.ev('client_done', i=i, raised=type(raised).__name__ if raised else None)
            if unjudged:
                prevs[cid] = 'overlap'
                continue
            reqs = [e for e in sim.log[first:] if e['k'] == 'req']
            judged += 1
            want = uris[i % scn['n']]
            states.add(f'{scn["n"]}/{i % scn["n"]}/{prev}/{st["outcome"]}')
            if prev in ('s404', 's401', 's400', 'perm500'):
                bump('error_then_request')
            if prev.startswith('exc'):
                bump('exception_then_request')
            if prev.startswith('abort'):
                bump('aborted_call_then_request')
            if prev == 'trans6':
                bump('transient_exhausted_then_request')
            if i >= scn['n'] and scn['n'] > 1:
                bump('wrapped_around')
            if cid == 1:
                bump('two_clients_one_uri_list')
            if scn.get('bare_string_pool') and i == 1:
                bump('pool_given_as_bare_string')
            if i == 1001:
                bump('more_than_1000_requests_on_one_client')
            if len(set(uris)) < len(uris):
                bump('duplicate_pool_entry')
            hosts = [r['host'] for r in reqs]
            if not hosts:
                violations.append({'kind': 'no-attempt', 'sig': 'C28/no-attempt', 'detail': {'i': i}})
                break
            if any(h != want for h in hosts):
                cause = 'first' if prev == 'start' else 'after-overlap' if prev == 'overlap' else ('after-failure' if prev not in ('ok', 'trans_ok') else 'after-success')
                within = len(set(hosts)) > 1
                violations.append(
                    {
                        'kind': 'wrong-node',
                        'sig': f'C28/wrong-node:{"retry-moved" if within else cause}',
                        'detail': {'i': i, 'client': cid, 'n': scn['n'], 'expected': want, 'hosts': hosts, 'previous_outcome': prev},
                    }
                )
                break
            prevs[cid] = st['outcome']
        if inflight is not None:
            park['release'].set()
            inflight[0].join(60)

    out = {
        'violations': violations,
        'judged': judged if (len(scn['steps']) > 1) else 0,
        'faults': {'outcome:' + k: sum(1 for s in scn['steps'][: judged] if s['outcome'] == k) for k in OUTCOMES if k != 'ok'},
        'probes': probes,
        'states': sorted(states),
        'seqs': [json.dumps([scn['n']] + [s['outcome'] for s in scn['steps'][:judged]])],
        'virtual_ms': sim.now_ms,
        'digest': sim.digest(),
        'summary': {'n': scn['n'], 'requests': judged, 'http_attempts': tr.attempts},
    }
    if want_log:
        out['log'] = sim.log
    return out


def simplify(scn):
    if scn.get('hosts') and scn['hosts'] != list(range(scn['n'])):
        c = json.loads(json.dumps(scn))
        c['hosts'] = list(range(scn['n']))
        yield c
    if scn['n'] > 2:
        c = json.loads(json.dumps(scn))
        c['n'] = scn['n'] - 1
        c['hosts'] = [h for h in scn.get('hosts', list(range(scn['n'])))[: scn['n'] - 1]]
        yield c
    for i, st in enumerate(scn['steps']):
        if st['via'] != 'get':
            c = json.loads(json.dumps(scn))
            c['steps'][i]['via'] = 'get'
            yield c
        for fld in ('shell2', 'client', 'thread', 'touch'):
            if st.get(fld):
                c = json.loads(json.dumps(scn))
                del c['steps'][i][fld]
                yield c
        if st['outcome'] not in ('ok', 's404', 'exc'):
            c = json.loads(json.dumps(scn))
            c['steps'][i] = {'via': st['via'], 'outcome': 'exc'} if st['outcome'].startswith('exc_') else c['steps'][i]
            if st['outcome'].startswith('exc_'):
                yield c
        if st['outcome'] not in ('ok', 's404'):
            for o in ('ok', 's404'):
                c = json.loads(json.dumps(scn))
                c['steps'][i] = {'via': st['via'], 'outcome': o}
                yield c
        if st.get('r', 0) > 1:
            c = json.loads(json.dumps(scn))
            c['steps'][i]['r'] = 1
            yield c


def valid(scn):
    return bool(scn['steps']) and 1 <= scn['n'] <= 4 and len(scn.get('hosts', [0] * scn['n'])) == scn['n']
