"""Simulation core: virtual clock + event heap, transport seam, seam installation.

pytezos is blocking code, so the loop is driven from *inside* the seams: the patched
`sleep(d)` runs every event due before now+d; the patched `requests.request` advances
the clock by the request latency (running due events — this is how a block is baked
between two RPCs of one client call), consults the fault plan, then routes to the
world's handler.  Execution draws nothing from a PRNG and reads no real clock.
"""
import hashlib
import heapq
import datetime
import json
import types
from collections import Counter
from datetime import datetime as _real_datetime
from datetime import timezone

import requests as _requests
from requests.structures import CaseInsensitiveDict

EPOCH0 = 1_700_000_000  # virtual clock origin (unix seconds); fixed, never read from the host


class SimCapExceeded(BaseException):
    """A run exceeded one of its caps (requests, events, virtual time).  BaseException
    so that no `except Exception` in the code under test can swallow it."""


class HarnessError(BaseException):
    """The harness itself misbehaved (never reported as a property violation).  BaseException so
    that neither the code under test nor a step's error handling can mistake it for a client error."""


class Sim:
    def __init__(self, max_events=200_000, max_virtual_s=40 * 86400):
        self.now_ms = 0
        self.seq = 0
        self.heap = []
        self.log = []
        self.stats = Counter()
        self.max_events = max_events
        self.max_virtual_ms = max_virtual_s * 1000
        self._events_run = 0
        self._in_event = False

    # --- event log -------------------------------------------------------------
    def ev(self, kind, /, **kw):
        self.seq += 1
        rec = {'n': self.seq, 't': self.now_ms, 'k': kind}
        rec.update(kw)
        self.log.append(rec)
        return rec

    def digest(self):
        h = hashlib.sha256()
        for rec in self.log:
            h.update(json.dumps(rec, sort_keys=True, default=str).encode())
            h.update(b'\n')
        return h.hexdigest()

    # --- timers ----------------------------------------------------------------
    def after(self, delay_ms, cb, tag=''):
        self.seq += 1
        heapq.heappush(self.heap, (self.now_ms + int(delay_ms), self.seq, tag, cb))

    def advance(self, delta_ms):
        """Move the clock forward, running every event that falls due on the way."""
        delta_ms = int(delta_ms)
        if delta_ms < 0:
            raise HarnessError(f'negative advance {delta_ms}')
        target = self.now_ms + delta_ms
        if target > self.max_virtual_ms:
            raise SimCapExceeded(f'virtual time cap: {target} ms')
        if self._in_event:
            # an event handler never blocks; nested advancing would reorder time
            raise HarnessError('advance() called from inside an event')
        while self.heap and self.heap[0][0] <= target:
            at, _seq, tag, cb = heapq.heappop(self.heap)
            self.now_ms = max(self.now_ms, at)
            self._events_run += 1
            if self._events_run > self.max_events:
                raise SimCapExceeded('event cap')
            self._in_event = True
            try:
                cb()
            finally:
                self._in_event = False
        self.now_ms = target

    # --- the clock pytezos sees ------------------------------------------------
    def sleep(self, seconds):
        ms = int(round(float(seconds) * 1000))
        self.stats['sleep_calls'] += 1
        self.ev('sleep', ms=ms)
        self.advance(max(ms, 0))

    def unix(self):
        return EPOCH0 + self.now_ms // 1000

    def iso(self, unix=None):
        return _real_datetime.fromtimestamp(self.unix() if unix is None else unix, timezone.utc).strftime(
            '%Y-%m-%dT%H:%M:%SZ'
        )


import time as _time_mod  # noqa: E402

_REAL = {k: getattr(_time_mod, k) for k in ('sleep', 'monotonic', 'perf_counter', 'time', 'monotonic_ns', 'time_ns')}
_CLOCK_BINDINGS = None
_SWEEP_PREFIXES = ('pytezos.rpc', 'pytezos.operation', 'pytezos.context', 'pytezos.client', 'pytezos.contract')


def _clock_bindings():
    """(module, name, kind) for every name in the client-side pytezos modules bound to a real clock.  Computed once per
    process (the code under test does not change within a process)."""
    global _CLOCK_BINDINGS
    if _CLOCK_BINDINGS is None:
        import sys

        found = []
        real_ids = {id(v) for v in _REAL.values()}
        for mname, mod in sorted(sys.modules.items()):
            if mod is None or not mname.startswith(_SWEEP_PREFIXES):
                continue
            for name, val in list(vars(mod).items()):
                if id(val) in real_ids:
                    found.append((mod, name, 'func'))
                elif val is _time_mod:
                    found.append((mod, name, 'time_module'))
                elif val is _real_datetime and mname.startswith('pytezos.rpc'):
                    found.append((mod, name, 'datetime_class'))
        _CLOCK_BINDINGS = found
    return _CLOCK_BINDINGS


def make_datetime_class(sim):
    class SimDateTime(_real_datetime):
        @classmethod
        def now(cls, tz=None):
            sim.stats['clock_reads'] += 1
            base = _real_datetime.fromtimestamp(EPOCH0 + sim.now_ms / 1000.0, timezone.utc)
            if tz is None:
                base = base.replace(tzinfo=None)
            else:
                base = base.astimezone(tz)
            return cls(
                base.year, base.month, base.day, base.hour, base.minute, base.second, base.microsecond, base.tzinfo
            )

        @classmethod
        def utcnow(cls):
            return cls.now(None)

    return SimDateTime


# ---------------------------------------------------------------------------------
# transport
# ---------------------------------------------------------------------------------


def make_response(status, ctype, body, url='', reason=None, headers=None):
    """A *real* requests.Response carrying bytes: everything pytezos does with a
    response (`.json()` with requests' own JSONDecodeError, `.text`, headers lookup)
    is the library's code, not a stub."""
    r = _requests.Response()
    r.status_code = int(status)
    r._content = body if isinstance(body, bytes) else str(body).encode()
    r._content_consumed = True
    r.headers = CaseInsensitiveDict({'content-type': ctype} if ctype else {})
    for hk, hv in (headers or {}).items():
        r.headers[hk] = hv
    r.encoding = 'utf-8'
    r.url = url
    r.reason = reason or ''
    return r


class Reply:
    """What a world handler returns for one delivered request."""

    __slots__ = ('status', 'ctype', 'body', 'exc', 'note', 'headers')

    def __init__(self, status=200, body=b'', ctype='application/json', exc=None, note=None, headers=None):
        self.status = status
        self.ctype = ctype
        self.body = body
        self.exc = exc
        self.note = note
        self.headers = headers

    @classmethod
    def js(cls, obj, status=200, note=None):
        return cls(status, json.dumps(obj).encode(), 'application/json', note=note)

    @classmethod
    def text(cls, s, status=500, note=None):
        return cls(status, s.encode() if isinstance(s, str) else s, 'text/plain', note=note)

    @classmethod
    def error(cls, exc_name, msg='', note=None):
        return cls(exc=(exc_name, msg), note=note)


_EXC = {
    'ConnectionError': _requests.exceptions.ConnectionError,
    'ReadTimeout': _requests.exceptions.ReadTimeout,
    'ConnectTimeout': _requests.exceptions.ConnectTimeout,
    'ChunkedEncodingError': _requests.exceptions.ChunkedEncodingError,
    # the call is aborted from outside while it waits for the node (user interrupt, task cancellation): not `Exception`s
    'KeyboardInterrupt': KeyboardInterrupt,
    'CancelledError': __import__('asyncio').CancelledError,
}


def temp_error_body(tok='x'):
    return json.dumps([{'kind': 'temporary', 'id': 'node.prevalidation.busy', 'tok': tok}]).encode()


class Transport:
    """The only transport pytezos sees.  `handler(req) -> Reply`; `fault(req) -> dict|None`
    decides, per request ordinal, a directive:
      {'f': 'transient', 'n': k, 'status': 503}   reply k times with a retryable 5xx, then deliver
      {'f': 'preval', 'n': k}                     same with the prevalidator text marker
      {'f': 'latency', 'ms': m}                   extra latency before delivery
      {'f': 'ack_lost', 'how': 'exc'|'5xx'|'temp'}  deliver to the node, lose the answer
      {'f': 'reject', 'how': 'exc'|'perm'}        do not deliver; transport error / permanent 5xx
    """

    def __init__(self, sim, handler, latency_ms=0, max_requests=20_000):
        self.sim = sim
        self.handler = handler
        self.latency_ms = latency_ms
        self.max_requests = max_requests
        self.attempts = 0  # HTTP attempts (including retries)
        self.fault_for = None  # callable(req) -> directive or None
        self._burst = {}  # key -> remaining transient replies
        self.record_bodies = True

    def _deliver(self, req):
        """Route to the world's handler; anything it raises is a harness bug, never a client-visible error."""
        try:
            reply = self.handler(req)
        except (HarnessError, SimCapExceeded):
            raise
        except Exception as e:  # noqa: BLE001
            import traceback

            raise HarnessError('world handler raised: ' + ''.join(traceback.format_exception(type(e), e, e.__traceback__))[-1500:]) from e
        if not isinstance(reply, Reply):
            raise HarnessError(f'world handler returned {type(reply).__name__}')
        return reply

    def request(self, method, url, headers=None, timeout=None, params=None, json=None, stream=False, **kw):
        sim = self.sim
        if kw:
            raise HarnessError(f'unmodelled requests.request kwargs: {sorted(kw)}')
        prepared = _requests.Request(method=method, url=url, headers=headers, params=params, json=json).prepare()
        full = prepared.url
        scheme_host, _, rest = full.partition('://')
        host, slash, path_q = rest.partition('/')
        path_q = slash + path_q
        path, _, query = path_q.partition('?')
        body = prepared.body
        if isinstance(body, str):
            body = body.encode()
        self.attempts += 1
        if self.attempts > self.max_requests:
            raise SimCapExceeded(f'request cap {self.max_requests}')
        t_send = sim.now_ms
        req = {
            'i': self.attempts,
            'method': prepared.method,
            'host': scheme_host + '://' + host,
            'path': path,
            'query': query,
            'body': body,
            'headers': dict(prepared.headers),
            'timeout': timeout,
            'stream': stream,
        }
        sim.stats['http_attempts'] += 1
        rec = sim.ev(
            'req',
            i=self.attempts,
            m=req['method'],
            host=req['host'],
            path=path,
            q=query,
            body=(body.decode('utf-8', 'replace') if (body and self.record_bodies) else (len(body) if body else None)),
            to=timeout,
            h=sorted((k.lower(), v) for k, v in prepared.headers.items() if k.lower() in ('content-type', 'user-agent', 'authorization')),
        )
        bkey = (req['method'], path, query, body)
        reply = None
        directive = None
        burst = self._burst.get(bkey)
        if burst and burst[0] > 0:
            # an injected transient burst in progress on this very request (same method/url/body)
            burst[0] -= 1
            directive = {'f': burst[1], 'status': burst[2], 'continued': True}
        else:
            self._burst.pop(bkey, None)
            directive = self.fault_for(req) if self.fault_for else None
            if directive and directive.get('f') in ('transient', 'preval'):
                n = int(directive['n'])
                if n <= 0:
                    directive = None
                else:
                    self._burst[bkey] = [n - 1, directive['f'], int(directive.get('status', 503))]
        lat = self.latency_ms
        if directive and directive.get('f') == 'latency':
            lat += int(directive['ms'])
            sim.stats['fault:latency'] += 1
            rec['fault'] = 'latency'
        if lat:
            sim.advance(lat)
        if directive:
            f = directive.get('f')
            if f in ('transient', 'preval'):
                sim.stats['fault:' + f] += 1
                rec['fault'] = f
                if f == 'transient':
                    reply = Reply(int(directive.get('status', 503)), temp_error_body('inj%d' % self.attempts))
                else:
                    reply = Reply.text('Assert_failure src/lib_shell/prevalidator.ml:1918:6 inj', 500)
            elif f == 'status':
                # the endpoint answers with a plain HTTP error (a gateway hiding an RPC: 404 / 401 / 403)
                sim.stats['fault:status'] += 1
                rec['fault'] = 'status:%s' % directive.get('code', 404)
                reply = Reply.text('not available here', int(directive.get('code', 404)))
            elif f == 'reject':
                sim.stats['fault:reject'] += 1
                rec['fault'] = 'reject:' + directive.get('how', 'exc')
                if directive.get('how', 'exc') == 'exc':
                    reply = Reply.error('ConnectionError', 'injected: connection refused')
                else:
                    reply = Reply.js([{'kind': directive.get('kind', 'permanent'), 'id': directive.get('err_id', 'node.injected.rejected')}], status=500)
            elif f == 'ack_lost':
                delivered = self._deliver(req)
                sim.stats['fault:ack_lost'] += 1
                rec['fault'] = 'ack_lost:' + directive.get('how', 'exc')
                rec['delivered_status'] = delivered.status if delivered.exc is None else delivered.exc[0]
                how = directive.get('how', 'exc')
                if how == 'exc':
                    reply = Reply.error('ReadTimeout', 'injected: ack lost')
                elif how == 'temp':
                    reply = Reply(503, temp_error_body('acklost%d' % self.attempts))
                else:
                    reply = Reply.js([{'kind': 'permanent', 'id': 'node.injected.ack_lost'}], status=500)
        if reply is None:
            reply = self._deliver(req)
        if reply.exc is not None:
            name, msg = reply.exc
            rec['exc'] = name
            raise _EXC[name](msg)
        rec['status'] = reply.status
        if reply.note:
            rec['note'] = reply.note
        res = make_response(reply.status, reply.ctype, reply.body, url=full, headers=reply.headers)
        # like requests: the time between sending the request and the arrival of the response (virtual)
        res.elapsed = datetime.timedelta(milliseconds=sim.now_ms - t_send)
        return res


class Seams:
    """Install/uninstall the simulator behind pytezos' module-level seams."""

    def __init__(self, sim, transport):
        self.sim = sim
        self.transport = transport
        self._saved = []

    def _set(self, mod, name, value):
        self._saved.append((mod, name, getattr(mod, name)))
        setattr(mod, name, value)

    def install(self):
        import socket
        import time

        import pytezos.rpc.node as node_mod
        import pytezos.rpc.shell as shell_mod

        shim = types.SimpleNamespace(
            request=self.transport.request,
            Response=_requests.Response,
            exceptions=_requests.exceptions,
            __name__='requests(simtz shim)',
        )
        self._set(node_mod, 'requests', shim)
        self._set(node_mod, 'sleep', self.sim.sleep)
        self._set(shell_mod, 'sleep', self.sim.sleep)
        simdt = make_datetime_class(self.sim)
        self._set(shell_mod, 'datetime', simdt)
        # Clock sweep: any other name in the client-side pytezos modules that is bound to a real clock (a mutant or a future
        # version may read time.monotonic(), time.time(), datetime.now() ...) is rebound to the virtual clock as well, so that
        # no deadline in the code under test can silently run on the host's clock.
        sim = self.sim
        virt = {
            id(_REAL['sleep']): sim.sleep,
            id(_REAL['monotonic']): lambda: 1000.0 + sim.now_ms / 1000.0,
            id(_REAL['perf_counter']): lambda: 1000.0 + sim.now_ms / 1000.0,
            id(_REAL['time']): lambda: EPOCH0 + sim.now_ms / 1000.0,
            id(_REAL['monotonic_ns']): lambda: int((1000.0 + sim.now_ms / 1000.0) * 1e9),
            id(_REAL['time_ns']): lambda: int((EPOCH0 + sim.now_ms / 1000.0) * 1e9),
        }
        time_shim = types.SimpleNamespace(**{k: virt[id(v)] for k, v in _REAL.items()})
        for mod, name, kind in _clock_bindings():
            if (mod is node_mod and name in ('sleep', 'requests')) or (mod is shell_mod and name in ('sleep', 'datetime')):
                continue
            if kind == 'func':
                self._set(mod, name, virt[id(getattr(mod, name))])
            elif kind == 'time_module':
                self._set(mod, name, time_shim)
            elif kind == 'datetime_class':
                self._set(mod, name, simdt)

        # tripwires: no real sleep, no real socket on any simulated path
        def _no_sleep(_s):
            raise HarnessError('real time.sleep reached on a simulated path')

        def _no_connect(*_a, **_k):
            raise HarnessError('real socket connect reached on a simulated path')

        self._set(time, 'sleep', _no_sleep)
        self._set(socket.socket, 'connect', _no_connect)
        return self

    def uninstall(self):
        while self._saved:
            mod, name, val = self._saved.pop()
            setattr(mod, name, val)

    def __enter__(self):
        return self.install()

    def __exit__(self, *exc):
        self.uninstall()
        return False
