"""Independent codec used by the simulated node.  Shares nothing with pytezos: base58check
via the `base58` package, hashing via hashlib, signatures via `cryptography` / `py_ecc`.
Only what the node needs: split a signed operation into branch / contents / signature,
decode manager operations (tag, source, zarith fee/counter/gas/storage, kind-specific tail).
"""
import hashlib

import base58

PREFIX = {
    'B': bytes([1, 52]),
    'o': bytes([5, 116]),
    'tz1': bytes([6, 161, 159]),
    'tz2': bytes([6, 161, 161]),
    'tz3': bytes([6, 161, 164]),
    'tz4': bytes([6, 161, 166]),
    'KT1': bytes([2, 90, 121]),
    'edpk': bytes([13, 15, 37, 217]),
    'sppk': bytes([3, 254, 226, 86]),
    'p2pk': bytes([3, 178, 139, 127]),
    'BLpk': bytes([6, 149, 135, 204]),
    'Net': bytes([87, 82, 0]),
    'P': bytes([2, 170]),
    'expr': bytes([13, 44, 64, 27]),
    'sig': bytes([4, 130, 43]),
}

MANAGER_TAGS = {
    107: 'reveal',
    108: 'transaction',
    109: 'origination',
    110: 'delegation',
    111: 'register_global_constant',
    158: 'transfer_ticket',
    201: 'smart_rollup_add_messages',
    206: 'smart_rollup_execute_outbox_message',
}
PKH_TAGS = {0: 'tz1', 1: 'tz2', 2: 'tz3', 3: 'tz4'}
PK_LEN = {0: 32, 1: 33, 2: 33, 3: 48}


class DecodeError(Exception):
    pass


def b58enc(prefix, payload):
    return base58.b58encode_check(PREFIX[prefix] + payload).decode()


def b58dec(prefix, s):
    raw = base58.b58decode_check(s)
    p = PREFIX[prefix]
    if raw[: len(p)] != p:
        raise DecodeError(f'bad prefix for {prefix}: {s}')
    return raw[len(p) :]


def blake2b(data, size=32):
    return hashlib.blake2b(data, digest_size=size).digest()


def block_hash(seed_bytes):
    return b58enc('B', blake2b(seed_bytes))


def op_hash(raw):
    return b58enc('o', blake2b(raw))


def pkh_of_pk(pk_b58):
    pre = pk_b58[:4]
    raw = b58dec(pre, pk_b58)
    tz = {'edpk': 'tz1', 'sppk': 'tz2', 'p2pk': 'tz3', 'BLpk': 'tz4'}[pre]
    return b58enc(tz, blake2b(raw, 20))


class Reader:
    def __init__(self, data, pos=0):
        self.d = data
        self.p = pos

    def take(self, n):
        if self.p + n > len(self.d):
            raise DecodeError(f'truncated: want {n} at {self.p}, have {len(self.d)}')
        out = self.d[self.p : self.p + n]
        self.p += n
        return out

    def byte(self):
        return self.take(1)[0]

    def zarith(self):
        shift = 0
        val = 0
        n = 0
        while True:
            b = self.byte()
            n += 1
            val |= (b & 0x7F) << shift
            shift += 7
            if not b & 0x80:
                if n > 1 and b == 0:
                    raise DecodeError('non-canonical zarith (trailing zero byte)')
                return val

    def arr(self, len_bytes=4):
        n = int.from_bytes(self.take(len_bytes), 'big')
        return self.take(n)

    def bool(self):
        b = self.byte()
        if b not in (0, 255):
            raise DecodeError(f'bad bool {b}')
        return b == 255

    def pkh(self):
        tag = self.byte()
        if tag not in PKH_TAGS:
            raise DecodeError(f'bad pkh tag {tag}')
        return b58enc(PKH_TAGS[tag], self.take(20))

    def address(self):
        tag = self.byte()
        if tag == 0:
            return self.pkh()
        body = self.take(20)
        pad = self.byte()
        if pad != 0:
            raise DecodeError('bad address padding')
        if tag == 1:
            return b58enc('KT1', body)
        return f'addr{tag}:{body.hex()}'


def decode_manager(r):
    start = r.p
    tag = r.byte()
    if tag not in MANAGER_TAGS:
        raise DecodeError(f'unsupported operation tag {tag} at {start}')
    kind = MANAGER_TAGS[tag]
    c = {'kind': kind, 'source': r.pkh()}
    c['fee'] = r.zarith()
    c['counter'] = r.zarith()
    c['gas_limit'] = r.zarith()
    c['storage_limit'] = r.zarith()
    if kind == 'reveal':
        t = r.byte()
        if t not in PK_LEN:
            raise DecodeError(f'bad pk tag {t}')
        c['public_key_raw'] = (t, r.take(PK_LEN[t]).hex())
        if r.bool():
            c['proof'] = r.arr().hex()
    elif kind == 'transaction':
        c['amount'] = r.zarith()
        c['destination'] = r.address()
        if r.bool():
            ep = r.byte()
            if ep == 255:
                c['entrypoint'] = r.arr(1).decode()
            else:
                c['entrypoint'] = {0: 'default', 1: 'root', 2: 'do', 3: 'set_delegate', 4: 'remove_delegate', 5: 'deposit'}.get(ep, f'tag{ep}')
            c['parameters_bytes'] = len(r.arr())
    elif kind == 'origination':
        c['balance'] = r.zarith()
        if r.bool():
            c['delegate'] = r.pkh()
        c['code_bytes'] = len(r.arr())
        c['storage_bytes'] = len(r.arr())
    elif kind == 'delegation':
        if r.bool():
            c['delegate'] = r.pkh()
    elif kind == 'register_global_constant':
        c['value_bytes'] = len(r.arr())
    elif kind == 'transfer_ticket':
        r.arr()
        r.arr()
        r.address()
        c['ticket_amount'] = r.zarith()
        r.address()
        c['entrypoint'] = r.arr().decode()
    elif kind == 'smart_rollup_add_messages':
        c['messages_bytes'] = len(r.arr())
    elif kind == 'smart_rollup_execute_outbox_message':
        r.take(20)
        r.take(32)
        r.arr()
    c['size'] = r.p - start
    return c


def split_signed(raw):
    """raw signed operation -> (branch b58, [contents], signature bytes).  The signature
    length follows the key kind of the first manager source: 96 bytes for tz4 (as pytezos
    appends it), otherwise 64."""
    if len(raw) < 32 + 2 + 64:
        raise DecodeError('too short')
    branch = b58enc('B', raw[:32])
    r = Reader(raw, 32)
    # peek the source tag of the first content to learn the signature length
    first_tag = raw[32]
    if first_tag not in MANAGER_TAGS:
        raise DecodeError(f'unsupported operation tag {first_tag}')
    siglen = 96 if raw[33] == 3 else 64
    contents = []
    end = len(raw) - siglen
    while r.p < end:
        contents.append(decode_manager(r))
    if r.p != end:
        raise DecodeError(f'contents overrun the signature: pos {r.p}, end {end}')
    return branch, contents, raw[end:]


def verify_signature(pk_b58, message, sig):
    """message = watermark || unsigned bytes.  True/False; never raises on a bad signature."""
    from cryptography.exceptions import InvalidSignature
    from cryptography.hazmat.primitives import hashes
    from cryptography.hazmat.primitives.asymmetric import ec
    from cryptography.hazmat.primitives.asymmetric import ed25519
    from cryptography.hazmat.primitives.asymmetric.utils import Prehashed
    from cryptography.hazmat.primitives.asymmetric.utils import encode_dss_signature

    pre = pk_b58[:4]
    raw = b58dec(pre, pk_b58)
    digest = blake2b(message)
    try:
        if pre == 'edpk':
            ed25519.Ed25519PublicKey.from_public_bytes(raw).verify(sig, digest)
            return True
        if pre in ('sppk', 'p2pk'):
            curve = ec.SECP256K1() if pre == 'sppk' else ec.SECP256R1()
            pub = ec.EllipticCurvePublicKey.from_encoded_point(curve, raw)
            der = encode_dss_signature(int.from_bytes(sig[:32], 'big'), int.from_bytes(sig[32:], 'big'))
            # the digest is Blake2b-256; Prehashed only needs a 32-byte algorithm label
            pub.verify(der, digest, ec.ECDSA(Prehashed(hashes.SHA256())))
            return True
        if pre == 'BLpk':
            from py_ecc.bls import G2MessageAugmentation as bls_aug

            return bool(bls_aug.Verify(raw, message, sig))
    except InvalidSignature:
        return False
    except Exception:  # noqa: BLE001
        return False
    return False
