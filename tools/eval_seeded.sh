#!/bin/sh
# Evaluate every kept seeded change against the check of its property (scratch copy, see try_patch.sh);
# writes seeded/<id>/detection.txt with the exit code and the reported signatures.
here="$(cd "$(dirname "$0")/.." && pwd)"
for d in "$here"/seeded/*/; do
  id=$(basename "$d"); prop=${id%%-*}
  [ -n "$1" ] && [ "$1" != "$id" ] && [ "$1" != "$prop" ] && continue
  out=$("$here/tools/try_patch.sh" "$d/patch.diff" "$prop" 2>&1); rc=$?
  { echo "check=$prop exit=$rc"; echo "$out" | grep -E "^VIOLATION|signature:|^OK property|HARNESS|KNOWN-FINDING" | cut -c1-300; echo "$out" | grep -E "^$prop quick" ; } > "$d/detection.txt"
  echo "$id exit=$rc $(grep -c '^VIOLATION' "$d/detection.txt") violation line(s)"
done
