#!/usr/bin/env python3
"""Rewrite the seeded-changes table in DESIGN.md (between the markers) from seeded/*/meta.json."""
import glob, json, os, re
HERE = os.path.dirname(os.path.dirname(os.path.abspath(__file__)))
p = os.path.join(HERE, 'DESIGN.md')
s = open(p).read()
rows, stats = [], {}
for d in sorted(glob.glob(os.path.join(HERE, 'seeded', '*', 'meta.json'))):
    m = json.load(open(d))
    rnd = {'A': 1, 'B': 1, 'C': 2, 'D': 2, 'E': 3, 'F': 3, 'G': 4, 'H': 4, 'I': 5, 'J': 5, 'K': 6, 'L': 6, 'M': 7, 'N': 7, 'P': 8, 'Q': 8, 'R': 9, 'S': 9}[m['id'][-1]]
    st = stats.setdefault(rnd, [0, 0, 0])
    det = m['detection']
    if det.startswith('MISSED'):
        out = 'missed at first, caught after widening the generator'; st[1] += 1
    elif det.startswith('NOT DETECTED'):
        out = 'not detected: ' + ('outside the statement\'s quantification' if 'quantification' in det else 'entry point not driven by the check' if ('does not drive' in det or 'drives only' in det) else 'unobservable under the node model'); st[2] += 1
    else:
        out = 'caught as built'; st[0] += 1
    rows.append(f"| {m['id']} | {m['change'][:170]} | {m['needs_to_manifest'][:150]} | {out} |")
summary = '; '.join(f'round {r}: {v[0]} caught as built, {v[1]} after widening' + (f', {v[2]} not detected' if v[2] else '') for r, v in sorted(stats.items()))
table = f'<!-- seeded-table-begin -->\n{len(rows)} changes kept. {summary}.\n\n| id | change | needs | outcome |\n|---|---|---|---|\n' + '\n'.join(rows) + '\n<!-- seeded-table-end -->'
if '<!-- seeded-table-begin -->' in s:
    s = re.sub(r'<!-- seeded-table-begin -->.*?<!-- seeded-table-end -->', lambda _m: table, s, flags=re.S)
else:
    s = re.sub(r'\| id \| change \| needs \| outcome \|\n\|---\|---\|---\|---\|\n(\|.*\n)+', lambda _m: table + '\n', s)
open(p, 'w').write(s)
print(summary)
