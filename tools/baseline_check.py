#!/usr/bin/env python3
"""Run the repository's pinned suite (guard off) and compare with BASELINE.json stable_pass."""
import json, os, subprocess, sys, tempfile, xml.etree.ElementTree as ET
b = json.load(open('/root/.vp/BASELINE.json'))
stable = set(b['stable_pass'])
fd, path = tempfile.mkstemp(suffix='.xml'); os.close(fd)
env = dict(os.environ); env.pop('BAKING_BAD_PYTEZOS_VERIF', None)
cmd = ['/venv/bin/python', '-m', 'pytest', '-ra', '-q', '-p', 'no:cacheprovider', '--timeout=900', '--continue-on-collection-errors', f'--junitxml={path}'] + sys.argv[1:]
p = subprocess.run(cmd, cwd='/repo', env=env, capture_output=True, text=True)
passed = set()
for tc in ET.parse(path).iter('testcase'):
    if not any(ch.tag in ('failure', 'error', 'skipped') for ch in tc):
        passed.add(tc.get('classname') + '::' + tc.get('name'))
os.unlink(path)
missing = sorted(stable - passed)
print(p.stdout.strip().splitlines()[-1])
print(f'stable_pass={len(stable)} passed_now={len(passed)} stable_missing={len(missing)}')
for m in missing[:20]:
    print('  MISSING', m)
sys.exit(1 if missing else 0)
