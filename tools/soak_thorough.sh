#!/bin/sh
# Soak of the thorough tier's generators: the search part only (self-tests off), several VERIF_SEED values, short budget each.
# usage: tools/soak_thorough.sh <first_seed> <last_seed> <budget_s> [ids...]
here="$(cd "$(dirname "$0")/.." && pwd)"
first=${1:-1}; last=${2:-3}; budget=${3:-180}; shift 3 2>/dev/null
ids=${*:-"C26 C28 C29 C25 C24 C22 C15"}
export VERIF_EVIDENCE_DIR=$(mktemp -d) VERIF_REPLAY_DIR="$here/replays" VERIF_THOROUGH_SELFTEST=0
bad=0
for seed in $(seq $first $last); do
  for id in $ids; do
    out=$(VERIF_SEED=$seed VERIF_BUDGET_S=$budget "$here/check" $id --tier thorough 2>&1); rc=$?
    if [ $rc -ne 0 ] || echo "$out" | grep -q '^VIOLATION'; then
      bad=$((bad+1)); echo "SOAK-FAIL id=$id seed=$seed rc=$rc"; echo "$out" | grep -E 'VIOLATION|signature|HARNESS|detail|UNSTABLE' | cut -c1-600
    else
      echo "soak ok id=$id seed=$seed $(echo "$out" | grep -E "^$id thorough" | cut -c1-140)"
    fi
  done
done
rm -rf "$VERIF_EVIDENCE_DIR"
echo "SOAK-DONE failures=$bad"
[ $bad -eq 0 ]
