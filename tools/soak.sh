#!/bin/sh
# Soak: run every claimed check's quick tier under many VERIF_SEED values on the current tree and
# report any run that does not exit 0 (a false alarm or a harness failure on the unchanged tree).
# usage: tools/soak.sh <first_seed> <last_seed> [ids...]
here="$(cd "$(dirname "$0")/.." && pwd)"
first=${1:-2}; last=${2:-6}; shift 2 2>/dev/null
ids=${*:-"C26 C28 C29 C25 C24 C22 C15"}
export VERIF_EVIDENCE_DIR=$(mktemp -d) VERIF_REPLAY_DIR="$here/replays"
bad=0
for seed in $(seq $first $last); do
  for id in $ids; do
    out=$(VERIF_SEED=$seed "$here/check" $id --tier quick 2>&1); rc=$?
    if [ $rc -ne 0 ] || echo "$out" | grep -q '^VIOLATION'; then
      bad=$((bad+1)); echo "SOAK-FAIL id=$id seed=$seed rc=$rc"; echo "$out" | grep -E 'VIOLATION|signature|HARNESS|detail' | cut -c1-600
    else
      echo "soak ok id=$id seed=$seed $(echo "$out" | grep -E "^$id quick" | cut -c1-120)"
    fi
  done
done
rm -rf "$VERIF_EVIDENCE_DIR"
echo "SOAK-DONE failures=$bad"
[ $bad -eq 0 ]
