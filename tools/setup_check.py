#!/venv/bin/python
"""MANIFEST.setup_cmd: nothing is fetched or built; verify that the interpreter can import
the repo's dependencies and that the tree under test is /repo/src."""
import os
import sys

sys.path.insert(0, os.path.dirname(os.path.dirname(os.path.abspath(__file__))))
from simtz import boot  # noqa: E402

boot.setup_path()
boot.load_pytezos()
import base58  # noqa: F401,E402
import cryptography  # noqa: F401,E402
import requests  # noqa: F401,E402
import simplejson  # noqa: F401,E402

os.makedirs(os.path.join(boot.VERIF, 'evidence'), exist_ok=True)
os.makedirs(os.path.join(boot.VERIF, 'replays'), exist_ok=True)
print('setup ok: pytezos from', boot.SRC)
