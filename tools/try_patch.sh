#!/bin/sh
# Run a check against a scratch copy of /repo/src with a patch applied (the copy lives in mktemp -d and is removed).
# usage: tools/try_patch.sh <patch.diff> <ID> [extra check args...]
here="$(cd "$(dirname "$0")/.." && pwd)"
patch=$(readlink -f "$1"); id=$2; shift 2
tmp=$(mktemp -d /tmp/simtz-try-XXXXXX)
cp -r /repo/src "$tmp/src"; find "$tmp" -name __pycache__ -type d -exec rm -rf {} + 2>/dev/null
(cd "$tmp" && patch -p1 -s < "$patch") || { echo "PATCH-FAILED"; rm -rf "$tmp"; exit 3; }
VERIF_REPO="$tmp" VERIF_EVIDENCE_DIR="$tmp/evidence" VERIF_REPLAY_DIR="$here/replays" "$here/check" "$id" --tier quick "$@"
rc=$?
rm -rf "$tmp"
exit $rc
