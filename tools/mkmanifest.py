#!/usr/bin/env python3
"""Regenerate /verif/MANIFEST.json (kept valid at all times) from the tables below."""
import json
import os
import subprocess

HERE = os.path.dirname(os.path.dirname(os.path.abspath(__file__)))

CLAIMED = {
    'C26': {
        'engine': 'rpcsim',
        'design_ref': 'DESIGN.md §3 C26',
        'technique': 'deterministic simulation: seeded scripted-response fault sequences on the HTTP seam with a virtual clock, judged by an executable reference of the retry contract',
        'text': 'Seeded search over node-response sequences (incl. transport exceptions) fed to the real RpcNode retry loop through the transport seam, '
        'with sleep on a virtual clock; every request is judged against a small executable reference of the statement (attempt count, identical resends, '
        'delay bounds, returned value / raised error attributed by unique token). Sampling, not enumeration.',
        'note': 'Trusted: the reference model in simtz/c26.py, requests.Response semantics, the response alphabet (ambiguous shapes are not generated).',
    },
    'C28': {
        'engine': 'rpcsim',
        'design_ref': 'DESIGN.md §3 C28',
        'technique': 'deterministic simulation: seeded request/outcome fault sequences against 1..4 fake nodes on the HTTP seam; oracle = request i reaches node i mod n',
        'text': 'Seeded search over request/outcome sequences (success, 4xx, permanent 5xx, transient bursts below and at the retry cap, transport exceptions) '
        'against 1..4 simulated nodes; the host of every HTTP attempt is compared with uri[i mod n].',
        'note': 'Trusted: the mapping "one RpcMultiNode call = one request"; the fake nodes only script outcomes.',
    },
    'C29': {
        'engine': 'nodesim',
        'design_ref': 'DESIGN.md §3 C29',
        'technique': 'deterministic simulation: simulated chain history served through the real query/retry stack with transient faults and a growing chain; oracle = recorded per-level history',
        'text': 'A simulated node bakes a chain whose tracked values (contract counter, ballots, proposals) change at seeded levels; the search helpers and '
        'BlockSliceQuery.find_* run through the real RPC stack with transient faults below the retry cap while the chain keeps growing; results are '
        'compared with the recorded history.',
        'note': 'Trusted: SimNode history bookkeeping; the reading of "the range" as (last, head].',
    },
    'C25': {
        'engine': 'nodesim',
        'design_ref': 'DESIGN.md §3 C25',
        'technique': 'deterministic simulation: seeded client call histories against a simulated node (baker timer, mempool, lost acks, rejected injections, transient faults); counters decoded independently from the injected bytes',
        'text': 'Seeded histories of build/fill/autofill/sign/inject/send on one account against SimNode, whose counter and mempool evolve with the '
        'injections while a timer-driven baker and other accounts run; the node decodes every arriving payload with its own decoder and checks '
        'counters = node counter + pending + 1.. . Faults: transient 5xx / prevalidator bursts, lost acks, rejected injections, latency.',
        'note': 'Trusted: SimNode (mempool/counter bookkeeping, independent operation decoder), the validity predicate on histories (serial lifecycles).',
    },
    'C24': {
        'engine': 'nodesim',
        'design_ref': 'DESIGN.md §3 C24',
        'technique': 'deterministic simulation: seeded operation batches filled/autofilled against a simulated node serving scenario-chosen simulation results; the node applies the default mempool fee filter to the bytes that arrive',
        'text': 'Seeded batches (all manager kinds the client forges, 1..16 contents, four key kinds, simulated consumptions across the range, counters '
        'and amounts crossing varint boundaries) are filled or autofilled and injected; the simulated prevalidator evaluates '
        '1000*fee >= 100000 + 1000*bytes + 100*gas on the received bytes.',
        'note': 'Trusted: the fee rule as stated in the property; SimNode decoder; constants are the protocol defaults.',
    },
    'C22': {
        'engine': 'replsim',
        'design_ref': 'DESIGN.md §3 C22',
        'technique': 'deterministic simulation: seeded REPL sessions with crash points injected at instruction boundaries (natural failures and a harness fault point); oracle = twin session without the failed cells, compared through public results plus a probe suffix',
        'text': 'Seeded template-structured REPL sessions; cells are made to fail after k instructions (natural failing tails and an entry/exit fault '
        'point wrapped around every instruction class); a twin session executes only the successful cells; all later public results, big_map ids '
        'and commit diffs must be equal.',
        'note': 'Trusted: the twin-session oracle and the rendering of public results; DEBUG mode excluded (documented re-raise).',
    },
    'C15': {
        'engine': 'replsim',
        'design_ref': 'DESIGN.md §3 C15',
        'technique': 'deterministic simulation: seeded transaction histories of big_map cells over a simulated node holding durable big_map contents (aborted sessions, failing cells, transient RPC faults); oracle = layered dictionary model and independent key hashing',
        'text': 'Sequences of REPL transactions (BEGIN, GET/MEM/UPDATE/GET_AND_UPDATE cells, COMMIT) over a simulated node whose big_map store is the '
        'only durable state; every observation and every committed diff is compared with a layered dictionary model; key hashes are recomputed '
        'independently.',
        'note': 'Trusted: the reference model, the independent Micheline packer for the key types used, SimNode big_map store.',
    },
}

NA = {
    'C01': 'pure function of (program, input stack, given environment); no schedule, clock, fault or second party for a simulator to control',
    'C02': 'static typing of the same pure executions; nothing to schedule or fault',
    'C03': 'COMPARE/ordering is a pure function of two values',
    'C04': 'PACK/UNPACK are pure byte functions',
    'C05': 'Micheline forge/unforge are pure functions',
    'C06': 'operation forging is pure (the simulated node decodes the manager subset independently as plumbing for C24/C25; not claimed)',
    'C07': 'signing/verification are deterministic pure functions; no nondeterminism to put behind a seam',
    'C08': 'key import/export/derivation are pure; the only random draw is a KDF salt, not a schedule',
    'C09': 'base58check codec, pure',
    'C10': 'optimized binary forms of addresses/keys/signatures, pure',
    'C11': 'Micheline value round trips, pure',
    'C12': 'Python-object conversion, pure',
    'C13': 'entrypoint resolution, pure',
    'C14': 'sequential operations on immutable in-memory values; the history is program input with no I/O, fault or durable state (model-based testing, not simulation)',
    'C16': 'arithmetic, pure',
    'C17': 'annotation-independence of pure executions',
    'C18': 'format/parse round trip, pure',
    'C19': 'macro expansion semantics, pure',
    'C20': 'ticket arithmetic inside the pure interpreter',
    'C21': 'BLS12-381 algebra, pure',
    'C23': 'sign/hash of a group is pure given key and contents (the simulated node verifies signatures on arrival as plumbing; not claimed)',
    'C27': 'error-class selection is a pure function of the error list and an import-time registry',
    'C30': 'diff/patch of texts, pure',
    'C31': 'Merkle hashing, pure',
    'C32': 'acceptance predicate on a view definition, pure',
    'C33': 'constant expansion over a local dictionary, pure',
}

BASELINE_OFF = (
    'cd /repo && env -u BAKING_BAD_PYTEZOS_VERIF /venv/bin/python -m pytest -ra -q -p no:cacheprovider --timeout=900 '
    '--continue-on-collection-errors'
)


def main():
    implemented = [p for p in CLAIMED if os.path.exists(os.path.join(HERE, 'simtz', p.lower() + '.py'))]
    checks = []
    for pid in sorted(implemented):
        c = CLAIMED[pid]
        checks.append(
            {
                'property_id': pid,
                'quick_cmd': f'./check {pid} --tier quick',
                'thorough_cmd': f'./check {pid} --tier thorough',
                'evidence_file': f'/verif/evidence/{pid}.json',
                'replay_cmd_template': './check replay {path}',
                'engine': c['engine'],
                'level_claimed': {'category': 'exploration', 'text': c['text'], 'design_ref': c['design_ref']},
                'level_note': c['note'],
                'technique': c['technique'],
            }
        )
    na = [{'property_id': p, 'reason': r} for p, r in sorted(NA.items())]
    for pid in sorted(CLAIMED):
        if pid not in implemented:
            na.append({'property_id': pid, 'reason': 'simulation check planned in DESIGN.md but not implemented yet; not claimed at this commit'})
    na.sort(key=lambda x: x['property_id'])
    try:
        fixes = subprocess.run(['git', '-C', '/repo', 'log', '--format=%h %s', '4a9e878..HEAD'], capture_output=True, text=True).stdout
    except Exception:  # noqa: BLE001
        fixes = ''
    man = {
        'version': 1,
        'setup_cmd': '/venv/bin/python /verif/tools/setup_check.py',
        'hooks': {
            'guard': 'BAKING_BAD_PYTEZOS_VERIF',
            'enable': 'no source hooks exist: every seam is a module-level name rebound from /verif (simtz/core.py Seams); checks import '
            'pytezos from /repo/src (or $VERIF_REPO/src) and export BAKING_BAD_PYTEZOS_VERIF=1 for any future guarded hook',
            'baseline_off_cmd': BASELINE_OFF,
            'source_commits': [],
            'add_only': True,
        },
        'engines': [
            {'name': 'rpcsim', 'path': 'simtz/c26.py simtz/c28.py simtz/core.py', 'serves_properties': [p for p in ('C26', 'C28') if p in implemented],
             'kind_free_text': 'scripted-response transport simulator with virtual clock'},
            {'name': 'nodesim', 'path': 'simtz/nodesim.py simtz/opcodec.py', 'serves_properties': [p for p in ('C24', 'C25', 'C29') if p in implemented],
             'kind_free_text': 'simulated Tezos node (chain, mempool, baker timer, independent operation decoder) behind the HTTP seam'},
            {'name': 'replsim', 'path': 'simtz/replsim.py', 'serves_properties': [p for p in ('C15', 'C22') if p in implemented],
             'kind_free_text': 'REPL session driver with instruction-level fault points and a simulated big_map store'},
        ],
        'checks': checks,
        'not_applicable': na,
        'notes': 'Exit codes: 0 held, 1 violation (VIOLATION line + replay file under /verif/replays), 2 harness failure. '
        'Known findings: /verif/known_findings.json. unguarded fix: commits in /repo since the pinned snapshot: ' + '; '.join(fixes.strip().splitlines()),
    }
    with open(os.path.join(HERE, 'MANIFEST.json'), 'w') as f:
        json.dump(man, f, indent=1)
        f.write('\n')
    print('claimed:', implemented, 'n/a:', len(na))


if __name__ == '__main__':
    main()
